#!/usr/bin/env python3
"""Build nitro's own test suite from a source tree into a scratch build dir and compare the
passing Catch2 test cases with /root/.vp/BASELINE.json (stable_pass).

usage: tools/suite.py <source-dir> [<build-dir>] [--keep]
exit 0 iff the tree configures, builds, and every baseline stable_pass case passes.
The build dir defaults to a fresh directory under /tmp and is removed afterwards.
"""
import json, os, shutil, subprocess, sys, tempfile
import xml.etree.ElementTree as ET

ENVS = {
    "Nitro.env_get_test": {"TEST_1": "THIS_WAS_SET"},
    "Nitro.options_test": {"OPT1": "OPT1_VALUE", "OPT2": "TRUE", "OPT3": "FALSE",
                           "OPT4": "OPT4_VALUE0;OPT4_VALUE1"},
}


def main():
    args = [a for a in sys.argv[1:] if not a.startswith("--")]
    keep = "--keep" in sys.argv
    src = os.path.abspath(args[0])
    bdir = os.path.abspath(args[1]) if len(args) > 1 else tempfile.mkdtemp(prefix="nitro_suite_")
    try:
        r = subprocess.run(["cmake", "-G", "Ninja", "-S", src, "-B", bdir,
                            "-DCMAKE_BUILD_TYPE=RelWithDebInfo", "-DCMAKE_CXX_FLAGS=-Wno-error"],
                           stdout=subprocess.PIPE, stderr=subprocess.STDOUT, text=True)
        if r.returncode:
            print(r.stdout[-3000:]); print("SUITE: configure failed"); return 2
        r = subprocess.run(["cmake", "--build", bdir, "-j", "16"], stdout=subprocess.PIPE,
                           stderr=subprocess.STDOUT, text=True)
        if r.returncode:
            print(r.stdout[-6000:]); print("SUITE: build failed"); return 2
        tdir = os.path.join(bdir, "tests")
        passed, failed = set(), set()
        for t in sorted(os.listdir(tdir)):
            if not t.startswith("Nitro.") or not os.access(os.path.join(tdir, t), os.X_OK):
                continue
            env = dict(os.environ)
            env["LD_LIBRARY_PATH"] = tdir + ":" + env.get("LD_LIBRARY_PATH", "")
            env.update(ENVS.get(t, {}))
            try:
                r = subprocess.run([os.path.join(tdir, t), "-r", "junit"], cwd=tdir, env=env,
                                   stdout=subprocess.PIPE, stderr=subprocess.DEVNULL, timeout=900)
            except subprocess.TimeoutExpired:
                print("SUITE: timeout in", t); failed.add(t + ".<timeout>"); continue
            try:
                root = ET.fromstring(r.stdout.decode("utf-8", "replace"))
            except ET.ParseError:
                print("SUITE: no junit from", t, "rc", r.returncode); failed.add(t + ".<crash>"); continue
            for tc in root.iter("testcase"):
                name = tc.get("classname") + "::" + tc.get("name")
                bad = any(c.tag in ("error", "failure") for c in tc)
                (failed if bad else passed).add(name)
        base = json.load(open("/root/.vp/BASELINE.json"))
        stable = set(base["stable_pass"])
        missing = sorted(stable - passed)
        print("SUITE: passed=%d failed=%d baseline_stable=%d missing_from_pass=%d"
              % (len(passed), len(failed), len(stable), len(missing)))
        for m in missing[:20]:
            print("  NOT PASSING:", m)
        return 0 if not missing else 1
    finally:
        if not keep and len(args) < 2:
            shutil.rmtree(bdir, ignore_errors=True)


if __name__ == "__main__":
    sys.exit(main())

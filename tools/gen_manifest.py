#!/usr/bin/env python3
"""Regenerate /verif/MANIFEST.json from checks/registry.py (+ tools/manifest_texts.py) and validate it."""
import json, os, subprocess, sys

ROOT = os.path.dirname(os.path.dirname(os.path.abspath(__file__)))
sys.path.insert(0, os.path.join(ROOT, "checks"))
sys.path.insert(0, os.path.join(ROOT, "tools"))
import registry, manifest_texts as T  # noqa: E402

SIZES = ("; next to the exhaustive small space a fixed, documented list of large and special cases runs (sizes around powers of two up to "
         "thousands of elements / bytes / options, particular bytes and values, see DESIGN.md 9 round 5)")
props = [json.loads(l) for l in open(os.path.join(ROOT, "properties.jsonl"))]
checks, na = [], []
for p in props:
    cid = p["id"]
    if cid in registry.CHECKS and cid in T.TEXT:
        t = T.TEXT[cid]
        checks.append({
            "property_id": cid,
            "quick_cmd": "bin/check %s --tier quick" % cid,
            "thorough_cmd": "bin/check %s --tier thorough" % cid,
            "evidence_file": "/verif/evidence/%s.json" % cid,
            "replay_cmd_template": "bin/check %s --replay {path}" % cid,
            "engine": t["engine"],
            "level_claimed": {"category": "model_checking", "text": t["level"] + SIZES, "design_ref": t["design_ref"]},
            "level_note": t["note"],
            "technique": t["technique"],
        })
    else:
        na.append({"property_id": cid, "reason": T.NA.get(cid, "check not built yet (work in progress); nothing is claimed for this property")})

hooks_commits = T.HOOK_COMMITS
m = {
    "version": 1,
    "setup_cmd": "true",
    "hooks": {
        "guard": "NITRO_VERIF",
        "enable": "no source hooks are needed: harnesses use template parameters, link-time interposition (pthread_mutex_*, dlopen/dlclose) and replaced stream buffers; the guard name is reserved only",
        "baseline_off_cmd": "cmake -G Ninja -S /repo -B /repo/_build -DCMAKE_BUILD_TYPE=RelWithDebInfo -DCMAKE_CXX_FLAGS=-Wno-error && cmake --build /repo/_build && ctest --test-dir /repo/_build -j8 --timeout 900",
        "source_commits": hooks_commits,
        "add_only": True,
    },
    "engines": T.ENGINES,
    "checks": checks,
    "not_applicable": na,
    "notes": T.NOTES,
}
json.dump(m, open(os.path.join(ROOT, "MANIFEST.json"), "w"), indent=1)
try:
    import jsonschema
    jsonschema.validate(m, json.load(open("/root/.vp/MANIFEST.schema.json")))
    print("MANIFEST.json valid: %d checks, %d not_applicable" % (len(checks), len(na)))
except ImportError:
    r = subprocess.run(["python3-vt", "-c", "import json,jsonschema;jsonschema.validate(json.load(open('%s/MANIFEST.json')),json.load(open('/root/.vp/MANIFEST.schema.json')));print('valid')" % ROOT])
    sys.exit(r.returncode)

#!/usr/bin/env python3
"""Confirm a seeded change delivered by a sub-agent and file it under /verif/seeded/<name>/.

usage: tools/confirm_seed.py <delivery-dir> <name>        e.g. /tmp/seed_C16_out/1 C16-1

In a fresh scratch worktree of /repo HEAD (under /tmp, removed afterwards):
  1. demo on the clean tree must pass (exit 0)
  2. patch must apply; nitro's own suite must still pass (tools/suite.py, 210 baseline cases)
  3. demo with the patch must fail (exit != 0)
Only then the delivery is copied to /verif/seeded/<name>/ and meta.json gets a "confirmed" record.
"""
import json, os, shutil, subprocess, sys, tempfile

ROOT = os.path.dirname(os.path.dirname(os.path.abspath(__file__)))


def sh(cmd, **kw):
    return subprocess.run(cmd, stdout=subprocess.PIPE, stderr=subprocess.STDOUT, text=True, errors="replace", **kw)


def main():
    src, name = sys.argv[1], sys.argv[2]
    wt = tempfile.mkdtemp(prefix="cs_%s_" % name, dir="/tmp")
    os.rmdir(wt)
    r = sh(["git", "-C", "/repo", "worktree", "add", "--detach", wt, "HEAD"])
    if r.returncode:
        print(r.stdout); return 2
    rec = {"repo_head": sh(["git", "-C", "/repo", "rev-parse", "HEAD"]).stdout.strip()}
    ok = False
    try:
        build = os.path.join(src, "build.sh")
        r1 = sh(["bash", build, wt], cwd=src, timeout=900)
        rec["demo_clean_rc"] = r1.returncode
        r = sh(["git", "-C", wt, "apply", os.path.join(src, "patch.diff")])
        rec["apply_rc"] = r.returncode
        if r.returncode:
            print("patch does not apply:", r.stdout)
        else:
            r2 = sh(["python3", os.path.join(ROOT, "tools", "suite.py"), wt, os.path.join(wt, "_b")], timeout=3600)
            rec["suite_rc"] = r2.returncode
            rec["suite_line"] = [l for l in r2.stdout.splitlines() if l.startswith("SUITE")][-1:]
            r3 = sh(["bash", build, wt], cwd=src, timeout=900)
            rec["demo_patched_rc"] = r3.returncode
            rec["demo_patched_tail"] = r3.stdout[-600:]
            ok = r1.returncode == 0 and r2.returncode == 0 and r3.returncode != 0
    finally:
        sh(["git", "-C", "/repo", "worktree", "remove", "--force", wt])
        shutil.rmtree(wt, ignore_errors=True)
    rec["confirmed"] = ok
    print(name, json.dumps(rec)[:900])
    if ok:
        dst = os.path.join(ROOT, "seeded", name)
        shutil.rmtree(dst, ignore_errors=True)
        shutil.copytree(src, dst)
        mp = os.path.join(dst, "meta.json")
        try:
            meta = json.load(open(mp))
        except Exception:
            meta = {}
        meta["confirmed_by_tools_confirm_seed"] = rec
        json.dump(meta, open(mp, "w"), indent=1)
    return 0 if ok else 1


if __name__ == "__main__":
    sys.exit(main())

#!/usr/bin/env python3
"""Demonstrate the genuine defects of the pinned tree with the checks themselves.

usage: tools/pinned_demo.py [<commit>=540a16b] [check ...]

Creates a scratch worktree of <commit> under /tmp, runs every (or the given) check's quick tier against it with
--no-evidence, and writes findings/pinned/<ID>.json: the violation signatures with one witness each.  For C06/C07 the
pinned fixed_vector cannot instantiate insert(const T&); the run is repeated with -DFV_NO_INSERT_CONST so that the other
defects show too.  The worktree is removed afterwards; /repo is not touched.
"""
import json, os, shutil, subprocess, sys, tempfile

ROOT = os.path.dirname(os.path.dirname(os.path.abspath(__file__)))
sys.path.insert(0, os.path.join(ROOT, "checks"))
import registry  # noqa: E402


def sh(cmd, **kw):
    return subprocess.run(cmd, stdout=subprocess.PIPE, stderr=subprocess.STDOUT, text=True, errors="replace", **kw)


def main():
    args = sys.argv[1:]
    commit = "540a16b"
    if args and not args[0].startswith("C"):
        commit = args.pop(0)
    checks = args or sorted(registry.CHECKS)
    wt = tempfile.mkdtemp(prefix="pinned_", dir="/tmp")
    os.rmdir(wt)
    r = sh(["git", "-C", "/repo", "worktree", "add", "--detach", wt, commit])
    if r.returncode:
        print(r.stdout)
        return 2
    # witnesses against the pinned commit go to findings/pinned/, against any other commit (e.g. the parent of a later
    # fix: commit) to findings/<commit>/
    outd = os.path.join(ROOT, "findings", "pinned" if commit == "540a16b" else commit)
    os.makedirs(outd, exist_ok=True)
    try:
        for c in checks:
            runs = [{}]
            if c in ("C06", "C07", "C20"):
                runs = [{}, {"VERIF_EXTRA_FLAGS": "-DFV_NO_INSERT_CONST"}]
            doc = {"check": c, "commit": commit, "runs": []}
            for extra in runs:
                env = dict(os.environ)
                env.update(extra)
                rd = os.path.join(ROOT, "build", "scratch_replays", c)
                shutil.rmtree(rd, ignore_errors=True)
                r = sh([os.path.join(ROOT, "bin", "check"), c, "--repo", wt, "--no-evidence"], env=env, timeout=7200)
                sigs = []
                if os.path.isdir(rd):
                    for f in sorted(os.listdir(rd)):
                        d = json.load(open(os.path.join(rd, f)))
                        sigs.append({"signature": d["signature"], "clause": d["clause"], "cases": d.get("cases_with_this_signature"),
                                     "witness": d.get("witness"), "detail": (d.get("detail") or "")[:700]})
                tail = [l for l in r.stdout.splitlines() if l.startswith(c + " tier")]
                doc["runs"].append({"extra_flags": extra.get("VERIF_EXTRA_FLAGS", ""), "exit": r.returncode, "summary": tail[-1] if tail else r.stdout[-300:],
                                    "violation_signatures": len(sigs), "signatures": sigs[:40]})
                print("%s %s exit=%d signatures=%d" % (c, extra.get("VERIF_EXTRA_FLAGS", ""), r.returncode, len(sigs)))
                sys.stdout.flush()
            json.dump(doc, open(os.path.join(outd, c + ".json"), "w"), indent=1)
    finally:
        sh(["git", "-C", "/repo", "worktree", "remove", "--force", wt])
        shutil.rmtree(wt, ignore_errors=True)
    return 0


if __name__ == "__main__":
    sys.exit(main())

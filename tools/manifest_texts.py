"""Texts for MANIFEST.json (kept apart from the build recipes in checks/registry.py)."""

HOOK_COMMITS = []

NOTES = ("All checks are bounded exhaustive explorations that run on the real nitro code (no separate model): "
         "engine A = explicit-state BFS over operation histories against a reference model, engine B = exhaustive "
         "enumeration of inputs/configurations against a reference model, engine C = preemption-bounded schedule "
         "exploration over interposed pthread mutex calls and a byte-yielding stream buffer. "
         "bin/check rebuilds from /repo's working tree (content-hash keyed cache under /verif/build). "
         "Genuine defects of the pinned tree are repaired by fix: commits in /repo and listed in known_findings.json.")

ENGINES = [
    {"name": "enum", "path": "engine/mc.hpp + ref/", "kind_free_text":
     "engine B: exhaustive enumeration of (declaration, argument vector, environment) / inputs up to a bound, "
     "sharded over 16 forked workers with per-case crash/hang attribution, real code vs reference model",
     "serves_properties": ["C01", "C02", "C03", "C04", "C08", "C11", "C12", "C15", "C16", "C17", "C05", "C10"]},
    {"name": "seqmc", "path": "engine/seqmc.hpp", "kind_free_text":
     "engine A: explicit-state breadth-first search over operation histories replayed on fresh real objects, "
     "canonical-state dedup, reference model compared after every transition, fault positions enumerated",
     "serves_properties": ["C06", "C07", "C13", "C14", "C18", "C19", "C20"]},
    {"name": "schedmc", "path": "engine/sched.c", "kind_free_text":
     "engine C: stateless preemption-bounded exploration (iterative context bounding) of real threads serialised at "
     "interposed pthread_mutex_lock/unlock/trylock and at every byte of a non-thread-safe streambuf; TSan free-running pass",
     "serves_properties": ["C09"]},
]

_PARSER_NOTE = ("trusted: the reference model ref/refparse.hpp (section 5 of DESIGN.md), the bounds reported in the "
                "evidence, g++/ASan/UBSan; token alphabets are relational (one representative per relation to the declaration)")

TEXT = {
    "C01": dict(engine="enum", design_ref="DESIGN.md 6 C01",
                technique="bounded exhaustive enumeration of declarations x argument vectors on the real parser vs reference automaton",
                level="model checking of the implementation: for every declaration of a 540-element grid and every argument "
                      "vector up to the length bound over the declaration's relational token alphabet, the real parser is "
                      "executed and every successful parse must be accepted by the reference automaton with identical token "
                      "accounting (toggle counts, option values, lists, positionals); same enumeration one token shorter under ASan+UBSan",
                note=_PARSER_NOTE),
}

NA = {}

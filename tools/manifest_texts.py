"""Texts for MANIFEST.json (kept apart from the build recipes in checks/registry.py)."""

HOOK_COMMITS = []

NOTES = ("All checks are bounded exhaustive explorations that run on the real nitro code (no separate model): "
         "engine A = explicit-state BFS over operation histories against a reference model, engine B = exhaustive "
         "enumeration of inputs/configurations against a reference model, engine C = preemption-bounded schedule "
         "exploration over interposed pthread mutex calls and a byte-yielding stream buffer. "
         "bin/check rebuilds from /repo's working tree (content-hash keyed cache under /verif/build). "
         "Genuine defects of the pinned tree are repaired by fix: commits in /repo and listed in known_findings.json.")

ENGINES = [
    {"name": "enum", "path": "engine/mc.hpp + ref/", "kind_free_text":
     "engine B: exhaustive enumeration of (declaration, argument vector, environment) / inputs up to a bound, "
     "sharded over 16 forked workers with per-case crash/hang attribution, real code vs reference model",
     "serves_properties": ["C01", "C02", "C03", "C04", "C08", "C11", "C12", "C15", "C16", "C17", "C05", "C10"]},
    {"name": "seqmc", "path": "engine/seqmc.hpp", "kind_free_text":
     "engine A: explicit-state breadth-first search over operation histories replayed on fresh real objects, "
     "canonical-state dedup, reference model compared after every transition, fault positions enumerated",
     "serves_properties": ["C06", "C07", "C13", "C14", "C18", "C19", "C20"]},
    {"name": "schedmc", "path": "engine/sched.c", "kind_free_text":
     "engine C: stateless preemption-bounded exploration (iterative context bounding) of real threads serialised at "
     "interposed pthread_mutex_lock/unlock/trylock and at every byte of a non-thread-safe streambuf; TSan free-running pass",
     "serves_properties": ["C09"]},
]

_PARSER_NOTE = ("trusted: the reference model ref/refparse.hpp (section 5 of DESIGN.md), the bounds reported in the "
                "evidence, g++/ASan/UBSan; token alphabets are relational (one representative per relation to the declaration)")

TEXT = {
    "C01": dict(engine="enum", design_ref="DESIGN.md 6 C01",
                technique="bounded exhaustive enumeration of declarations x argument vectors on the real parser vs reference automaton",
                level="model checking of the implementation: for every declaration of a 540-element grid and every argument "
                      "vector up to the length bound over the declaration's relational token alphabet, the real parser is "
                      "executed and every successful parse must be accepted by the reference automaton with identical token "
                      "accounting (toggle counts, option values, lists, positionals); same enumeration one token shorter under ASan+UBSan",
                note=_PARSER_NOTE),
}

def _p(cid, technique, level, design):
    TEXT[cid] = dict(engine="enum", design_ref=design, technique=technique, level=level, note=_PARSER_NOTE)


_p("C02", "bounded exhaustive enumeration of assignments x renderings (generator with inverse) on the real parser",
   "model checking of the implementation: every assignment of <= k items over a byte-level value alphabet and every rendering of it "
   "(4 option forms, long/short/bundled toggles, all item orders, every `--` placement, with and without short names) is parsed by the "
   "real parser - through parse(argc, argv) and, for well-formed tokens, parse(std::vector<user_input>) - and must give back exactly the assignment, "
   "byte for byte and in order, plus typed access for decimal texts; five declarations (short names, long only, prefix-related names, named groups, "
   "toggles with non-zero defaults); every value length 1..300 and every digit count 1..20 on a 62-item declaration in the four spellings",
   "DESIGN.md 6 C02")
_p("C03", "bounded exhaustive enumeration of source configurations (command line x environment x default x optional) vs reference",
   "model checking of the implementation: all combinations of {given in each spelling, not given} x environment {unbound, unset, empty, "
   "17 byte-level values} x default x optional/required for the three kinds, singly and as ordered pairs in one parser, against the "
   "reference ranking command line > environment > default including the provided flag and verbatim delivery; every single configuration also with a stale errno (ERANGE, EINVAL, EDOM) left by the caller; second parses on one parser;"
   "Every enumeration is repeated on a parser object that was used before (incremental declaration through kept references after usage() and warm-up parses, late short names, move assignment over a used parser)",
   "DESIGN.md 6 C03")
_p("C04", "bounded exhaustive enumeration of byte-level argument vectors with fork-isolated totality oracle + reference accept/reject boundary",
   "model checking of the implementation: 12 declarations x every argument vector up to the bound over a 54-token byte-level alphabet "
   "(whole malformed family) x environments + long-token stress cases (up to 200 kB) and every rejected-token length 1..300 through both entry points parse(argc, argv) and "
   "parse(std::vector<user_input>), second parses, parsers used before their declaration was complete or re-used through move assignment; every execution must return or throw exactly parsing_error "
   "(crash, terminate, other exception, sanitizer report, hang are attributed to the case) and accept exactly when the reference accepts",
   "DESIGN.md 6 C04")
_p("C11", "bounded exhaustive enumeration of toggle declarations x occurrence patterns x environment words; closed-world word enumeration",
   "model checking of the implementation: 96 toggle declarations (short name, reversible, default 0/1/3, env bound, alone / with a second toggle and an option in the same or in different groups) x every vector up to the bound over the occurrence alphabet (counts, "
   "bundles, --no- in all orders) against the reference; every occurrence count 4..1100 as tokens and in one bundle; the environment vocabulary is decided as a closed world over every string up "
   "to the length bound over the vocabulary's characters, all case variants and all single edits of the 30 documented words;"
   "Every enumeration is repeated on a parser object that was used before (incremental declaration through kept references after usage() and warm-up parses, late short names, move assignment over a used parser)",
   "DESIGN.md 6 C11")
_p("C12", "bounded exhaustive enumeration of positional configurations x argument vectors x indices vs reference",
   "model checking of the implementation: accepted count {0,1,2,3,unlimited} x greedy x every vector up to the bound over a 14-token "
   "alphabet mixing values, `--`, malformed dash tokens and option spellings; positional list, accept/reject and every index in "
   "[-m,m-1] (and memory safety for the two indices outside) against the reference; every number of positionals 4..1100 unlimited / exactly at / one above the accepted count; second parses; parser objects that held the "
   "opposite greedy mode before (move assignment) or were used before their options were declared",
   "DESIGN.md 6 C12")
_p("C14", "explicit-state search over parse histories on one parser object, differential oracle against a fresh parser",
   "model checking of the implementation: every sequence of <= h events (argument vector x environment through parse(argc, argv), "
   "argument vectors through parse(std::vector<user_input>), replacement of the declaration by move assignment; succeeding and failing) on one "
   "parser object for 4 declarations, each outcome compared with a freshly built identical parser; plus BFS de-duplicated on the "
   "option objects' public state to a fixpoint, which extends the statement to all finite sequences over the event alphabet",
   "DESIGN.md 6 C14")
TEXT["C14"]["engine"] = "seqmc"
_p("C13", "explicit-state search (depth-bounded enumeration + BFS to fixpoint) over declaration histories incl. moving the parser, vs reference map",
   "model checking of the implementation: every history of <= d declaration events (declare 3 kinds x 3 names x parser|g1|g2 (through kept group references), short_name "
   "valid/invalid/changed, MOVE of the parser with the old object destroyed or kept, PARSE) and a BFS to a fixpoint over all reachable reference states; every step must agree with "
   "the reference (new name ok, identical re-declaration returns the identical object, anything else parser_error) and at every state "
   "probe parses of every spelling - through both public parse entry points - must resolve to exactly the declared item, or parse must refuse when a letter is shared",
   "DESIGN.md 6 C13")
TEXT["C13"]["engine"] = "seqmc"
_p("C15", "bounded exhaustive enumeration of declarations x target streams; differential oracle across streams + structural parse-back",
   "model checking of the implementation: ~27k declarations (single item over the full attribute product incl. 38..60-character words and a "
   "45-character name; 2-3 items over groups, group creation orders and name permutations) x 10 target streams (fresh, prior content of "
   "1/79/200 characters with and without line break, non-seekable, after a parse, after a parse that took its values from the environment, from the moved parser); defaults and names include `{}`; the text must not depend on the stream, list every item once in "
   "group-creation / declaration order with spelling, placeholder, hint and default, keep every description word, and respect 80 columns",
   "DESIGN.md 6 C15")

_FV_NOTE = ("trusted: the bounded std::vector reference and the instrumented element types in checks/fv.hpp, ASan/UBSan, the state key "
            "(capacity, size, raw contents of all slots) capturing everything the container's behaviour depends on")
TEXT["C06"] = dict(engine="seqmc", design_ref="DESIGN.md 6 C06",
    technique="explicit-state BFS to a fixpoint over operation histories of the real container + exhaustive fault-position enumeration, ASan/UBSan",
    level="model checking of the implementation: every reachable concrete state of fixed_vector (capacities 0..bound, copyable and move-only "
          "instrumented element types) x every operation with every in-range and out-of-range argument, to a fixpoint - i.e. every finite "
          "operation sequence over the alphabet - (aliasing arguments, ranges through random-access, move and single-pass input iterators) plus every position at which an element copy/move/construction can throw; judged: size <= "
          "capacity, capacity fixed, unsatisfiable operations throw and leave the container unchanged, no unfilled slot visible, exact "
          "element accounting (no leak, no double destroy), moved-from containers usable, no sanitizer report; every range length 0..1100 through range construction, copy, assignment, range append, erase and emplace at three capacities; refused construction of a trivially copyable element at every position",
    note=_FV_NOTE)
TEXT["C07"] = dict(engine="seqmc", design_ref="DESIGN.md 6 C07",
    technique="explicit-state BFS to a fixpoint over operation histories of the real container against a bounded std::vector reference",
    level="model checking of the implementation: from every reachable concrete state every operation is applied to the real fixed_vector and to "
          "a std::vector bounded by the capacity; after every transition size, [], at, forward and reverse iteration (all six iterator pairs "
          "and nitro::lang::reverse), data, front/back must agree; copies equal and independent, moves transfer the sequence, assignment "
          "replaces the contents (all pairs of abstract-state representatives); every range length 0..1100 through range construction, copy, assignment, range append, erase and emplace at three capacities",
    note=_FV_NOTE)

TEXT["C17"] = dict(engine="enum", design_ref="DESIGN.md 6 C17",
    technique="bounded exhaustive enumeration of strings x separators / patterns / replacements vs naive single-pass references, with per-case termination oracle",
    level="model checking of the implementation: every run of 18..1100 identical characters and every string over {a,b,blank} up to the length bound (and over {a,NUL} up to 5) x every separator/pattern/replacement "
          "of length <= 3 (empty, overlapping and self-containing ones included) and every list of <= 3 elements x 5 infixes is run through "
          "the real split / replace_all / starts_with / join, replace_all also with the string itself as pattern / replacement, join also over 11 element types in "
          "every history of <= 3 calls; the laws of the statement and agreement with naive left-to-right scanners are "
          "checked on every case, and every call must return (timer + address-space limit)",
    note="trusted: the naive reference scanners in checks/C17.cpp; alphabets of 3 characters and of {a, NUL}; g++/ASan")
TEXT["C18"] = dict(engine="seqmc", design_ref="DESIGN.md 6 C18",
    technique="explicit-state BFS to a fixpoint over operation histories on real quaint_ptr / optional objects vs ownership table / std::optional",
    level="model checking of the implementation: all reachable states of a pool of 3 quaint_ptr + a vector<quaint_ptr> over three payload "
          "types, and of a pool of 2 optionals (for three payload types: tracked struct, bool, std::string), under every operation of the alphabet (create, move-construct, move-assign, reset, nullptr, "
          "destroy, swap, vector push/insert/erase/pop/clear/take-back; construct, copy from const / non-const source, assign const lvalue / non-const lvalue / temporary / moved / empty / self, read), to a "
          "fixpoint; after every transition the set of payloads destroyed must be exactly the reference's, by the right destructor, moved-from "
          "and reset pointers test empty, copies are deep, reading empty raises, and the teardown destroys everything exactly once",
    note="trusted: the ownership-table reference and payload accounting in checks/C18.cpp; canonical state ignores payload ids")
TEXT["C20"] = dict(engine="seqmc", design_ref="DESIGN.md 6 C20",
    technique="exhaustive enumeration of container kind x length x value category x adaptor x iteration style on the real adaptors",
    level="model checking (degenerate: one-step histories): every combination of 12 container kinds (vector, deque, list, map, set, std::array<0..4>, "
          "fixed_vector full / with spare capacity, built-in arrays, initializer lists) x lengths 0..4 x lvalue/const/temporary/temporary whose range object is moved on or copied before the loop x enumerate/"
          "reverse/enumerate(reverse) x iteration styles (range-for, ++it, it++, *it++) is executed; order, indices 0..n-1, exactly-once, aliasing by address and "
          "write-through, and liveness of temporaries for the whole loop are judged",
    note="trusted: instrumented element type with live-set; ASan for dangling temporaries")

TEXT["C08"] = dict(engine="enum", design_ref="DESIGN.md 6 C08",
    technique="bounded exhaustive enumeration of format strings x argument tuples x supply/read paths vs a naive single-scan reference; exception-message sequences",
    level="model checking of the implementation: every format string over {'{','}','a'} up to the length bound x every argument count 0..k+1 "
          "x every tuple over argument texts that themselves contain braces and placeholders, through operator% and args(...), read by str(), "
          "conversion and operator<<; typed values and stream manipulators; exception messages alone and after every ordered pair of earlier "
          "exceptions (sticky manipulators, nested raise); every history of supply/read/copy/move events up to the history bound on one formatter "
          "object, judged at every read; every history of <= 3 changes of the global locale (classic / grouping with '.' and decimal ',' / grouping with blanks) x every tuple of <= 2 typed values, compared with fresh streams after every change - text must equal positional, verbatim, never-rescanned substitution and wrong arity must raise",
    note="trusted: the naive reference scanner; narrow-character formats; for > 3 placeholders only three arguments vary")
TEXT["C16"] = dict(engine="enum", design_ref="DESIGN.md 6 C16",
    technique="exhaustive enumeration of all pairs, triples and in-place change histories over small member grids",
    level="model checking (exhaustive small grids): for three mix-in value types, nested tuple/pair/variant and smart pointers, every ordered "
          "pair (six comparison operators vs hand-written lexicographic comparison, trichotomy, equal => equal hash incl. signed zeros), every "
          "triple (transitivity), every in-place change value_i -> value_j after the object was hashed (hash must follow the members), hash "
          "sensitivity per member position and to member order - also per top-level component of nested tuples / pairs / variants / pointers and for "
          "u16/u32/wide strings - and hash containers (find exactly the inserted keys)",
    note="trusted: hand-written member comparisons; NaN excluded; 'rare collisions' judged as <= 5 % on the grid")
TEXT["C19"] = dict(engine="seqmc", design_ref="DESIGN.md 6 C19",
    technique="exhaustive (name, value, default, overload) grid for env::get; explicit-state BFS to a fixpoint over dl/symbol histories with interposed dlopen/dlclose",
    level="model checking of the implementation: env::get on every byte string of length <= 3 over 6 bytes x unset x 3 defaults x both overloads; "
          "dl: every reachable state of a pool of 2 library and 2 symbol objects over two test libraries and the program itself under open / "
          "failed open / load / failed load / copy / assign / move / call / destroy, to a fixpoint; after every transition the loader's mapping "
          "state (RTLD_NOLOAD) and the dlopen/dlclose balance must equal the reference count per successful open, failed opens and lookups "
          "raise nitro::dl::exception with a diagnostic that a kept copy still carries after later loader calls, symbols call into their own library; "
          "explored in a release-like (-DNDEBUG) and a debug-like build; the whole env value list is run a second time in a set-user-ID copy of the driver "
          "(secure-execution mode, AT_SECURE = 1; reported as not run where the file system does not honour set-user-ID)",
    note="trusted: link-time interposition of dlopen/dlclose in the harness executable, this image's glibc loader, the reference counting model in checks/C19.cpp")

_LOG_NOTE = ("trusted: the reference interpreter (severity >= compile-time minimum and boolean evaluation of the filter expression) and the recording "
             "formatter/sink in checks/logmc.hpp; one binary per compile-time minimum; single-threaded (C09 covers threads)")
TEXT["C05"] = dict(engine="enum", design_ref="DESIGN.md 6 C05",
    technique="exhaustive enumeration of generated log programs per compile-time minimum, event-by-event comparison with a reference interpreter",
    level="model checking of the implementation over generated programs: for each of the 6 compile-time minima, 17 filter expressions (severity thresholds, and/or/not, null, and a tag-inspecting filter) x threshold "
          "grids x 6 severities x tag/no tag x three syntactic forms (one expression, named stream, reference bound to the first insertion), a second "
          "record type with its own thresholds, threshold changes between statements, every item tuple of length <= 3 over "
          "11 item kinds (strings, numbers, callables, manipulators, a callable that itself logs, a null C string, a derived object through its base), "
          "every sequence of <= 3 statements over 8 under 5 filter settings (also during stack unwinding), two overlapping named streams, and two "
          "named streams with non-nested lifetimes around a whole statement; the event log (format, then each sequence-sink member in order, per enabled statement, in program "
          "order, with severity, tag and concatenated message) must equal the reference's, nothing for disabled statements",
    note=_LOG_NOTE)
TEXT["C10"] = dict(engine="enum", design_ref="DESIGN.md 6 C10",
    technique="exhaustive enumeration of generated log programs per compile-time minimum; static_assert on the stream type; callable-evaluation events vs reference",
    level="model checking of the implementation over the same generated programs as C05: every instantiation asserts at compile time that a "
          "statement below the minimum has the discarding stream type (and only those); at run time a callable streamed into a statement "
          "disabled by the minimum or by the runtime filter is never called, and for an emitted record every callable is called exactly once, "
          "at its position among the other items and before the record reaches the formatter - also when thresholds change between statements",
    note=_LOG_NOTE)

TEXT["C09"] = dict(engine="schedmc", design_ref="DESIGN.md 6 C09",
    technique="stateless preemption-bounded schedule exploration (iterative context bounding) of real threads under a cooperative scheduler + free-running ThreadSanitizer pass",
    level="model checking of the implementation: 2-4 real threads issuing 1-3 records (one configuration with named streams of non-nested lifetimes) of different length and severity through "
          "logger<stdout_mt> and logger<StdErrThreaded> (two configurations per sink with two different logger types - other record, other formatter - sharing the sink's stream) are serialised at every interposed pthread_mutex_lock/unlock/trylock and at every byte and "
          "flush phase of a deliberately non-thread-safe stream buffer; every schedule with at most k preemptions (k iterated 0..3), and - "
          "without any bound - every interleaving up to equality of the whole program state (state hashing at the choice points; all 90 / "
          "24 record orders of 3x2 / 4x1 threads are reached), and every schedule as a first use in a fresh process, runs to completion and its output must be a concatenation of whole records, each exactly "
          "once, per-thread order kept, the buffer never entered by two threads, no deadlock; the deciding binary is compiled without -pthread (what a default CMake build on this glibc does); a ThreadSanitizer build of the same bodies runs free",
    note="trusted: the scheduler in engine/sched.c (uninstrumented, raw futex hand-off), the owner-table model of the mutexes, sequential "
         "consistency between scheduling points; the TSan pass is a detector, not part of the exhaustive claim")

NA = {}

#!/usr/bin/env python3
"""Run checks against the seeded changes under /verif/seeded/.

usage: tools/run_seeds.py [--tier quick|thorough] [--all-checks] [name ...]

For every seeded/<name>/ (default: all): a scratch worktree of /repo HEAD is created under /tmp, patch.diff is
applied, `bin/check <property> --repo <worktree> --no-evidence` is run (the property the change was written
against; with --all-checks every registered check), and the worktree is removed.  Results are written to
seeded/RESULTS.json and printed as a table.  /repo itself is never modified.
"""
import json, os, shutil, subprocess, sys, tempfile, time

ROOT = os.path.dirname(os.path.dirname(os.path.abspath(__file__)))
sys.path.insert(0, os.path.join(ROOT, "checks"))
import registry  # noqa: E402


def sh(cmd, **kw):
    return subprocess.run(cmd, stdout=subprocess.PIPE, stderr=subprocess.STDOUT, text=True, errors="replace", **kw)


def main():
    args = sys.argv[1:]
    tier = "quick"
    if "--tier" in args:
        i = args.index("--tier")
        tier = args[i + 1]
        del args[i:i + 2]
    allc = "--all-checks" in args
    only = None  # --checks C01,C04: run exactly these checks (exploration; results are not recorded)
    if "--checks" in args:
        i = args.index("--checks")
        only = args[i + 1].split(",")
        del args[i:i + 2]
    names = [a for a in args if not a.startswith("--")]
    sd = os.path.join(ROOT, "seeded")
    if not names:
        names = sorted(d for d in os.listdir(sd) if os.path.isdir(os.path.join(sd, d)))
    resp = os.path.join(sd, "RESULTS.json")
    results = json.load(open(resp)) if os.path.exists(resp) else {}
    head = sh(["git", "-C", "/repo", "rev-parse", "--short", "HEAD"]).stdout.strip()
    for name in names:
        d = os.path.join(sd, name)
        meta = json.load(open(os.path.join(d, "meta.json")))
        prop = meta.get("property", name.split("-")[0])
        if only is None:
            results[name] = {}  # results of earlier runs of this change are superseded
        wt = tempfile.mkdtemp(prefix="rs_%s_" % name, dir="/tmp")
        os.rmdir(wt)
        r = sh(["git", "-C", "/repo", "worktree", "add", "--detach", wt, "HEAD"])
        try:
            r = sh(["git", "-C", wt, "apply", os.path.join(d, "patch.diff")])
            if r.returncode:
                r = sh(["git", "-C", wt, "apply", "--3way", os.path.join(d, "patch.diff")])
            if r.returncode:
                print("%-8s patch does not apply to HEAD: %s" % (name, r.stdout[-300:]))
                results.setdefault(name, {})["apply"] = "failed at " + head
                continue
            # "judged_by": the change was written against `property`, but the clause it breaks is owned by another
            # property's check (recorded with the reason in meta.json when the delivery was confirmed)
            checks = only if only else sorted(registry.CHECKS) if allc else meta.get("judged_by", [prop])
            for c in checks:
                if c not in registry.CHECKS:
                    print("%-8s %s: check not built yet" % (name, c))
                    continue
                t0 = time.time()
                r = sh([os.path.join(ROOT, "bin", "check"), c, "--tier", tier, "--repo", wt, "--no-evidence"], timeout=7200)
                viol = [l for l in r.stdout.splitlines() if l.startswith("VIOLATION")]
                first = ""
                for l in r.stdout.splitlines():
                    if l.strip().startswith("clause="):
                        first = l.strip()[:220]
                        break
                caught = r.returncode == 1 and bool(viol)
                (results.setdefault(name, {}) if only is None else {})["%s/%s" % (c, tier)] = {
                    "caught": caught, "rc": r.returncode, "violation_lines": len(viol), "first": first,
                    "wall_s": round(time.time() - t0, 1), "repo_head": head}
                print("%-8s %s/%s: %s (%d VIOLATION lines, %.0fs) %s" % (name, c, tier, "CAUGHT" if caught else "missed",
                                                                          len(viol), time.time() - t0, first[:150]))
                sys.stdout.flush()
        finally:
            sh(["git", "-C", "/repo", "worktree", "remove", "--force", wt])
            shutil.rmtree(wt, ignore_errors=True)
        if only is None:
            json.dump(results, open(resp, "w"), indent=1, sort_keys=True)
    if only is not None:
        return 0
    write_table(results, os.path.join(sd, "RESULTS.md"))
    return 0


def write_table(results, path):
    rows, n, caught = [], 0, 0
    for name in sorted(results, key=lambda k: (k.split("-")[0], int(k.split("-")[1]))):
        for c, r in sorted(results[name].items()):
            if not isinstance(r, dict):
                rows.append("| %s | - | %s | |" % (name, r))
                continue
            n += 1
            caught += bool(r.get("caught"))
            rows.append("| %s | %s | %s | `%s` |" % (name, c, "yes" if r.get("caught") else "NO", r.get("first", "")[:110].replace("|", "\\|")))
    with open(path, "w") as f:
        f.write("# Seeded changes vs. checks\n\nGenerated from RESULTS.json by `tools/run_seeds.py` (%d of %d runs reported a violation).  A change whose "
                "meta.json has `judged_by` is run against the check that owns the clause it breaks (reason in the meta.json).\n\n"
                "| change | check | caught | first violation reported |\n|---|---|---|---|\n" % (caught, n))
        f.write("\n".join(rows) + "\n")


if __name__ == "__main__":
    sys.exit(main())

#!/usr/bin/env python3
"""False-alarm test: behaviour-preserving refactorings of nitro must not make any check raise an alarm.

usage: tools/run_refactorings.py [--all-checks] [name ...]

For every refactorings/<name>/ (patch.diff + meta.json, produced by sub-agents that were asked for refactorings that
preserve the property; confirmed to apply and to pass nitro's own suite): a scratch worktree of /repo HEAD is created,
the patch applied, nitro's suite run (tools/suite.py), and the checks of the affected family (or all checks) are run with
`--repo <worktree> --no-evidence`.  Any VIOLATION is recorded: it is either a false alarm of the check or a refactoring
that is not behaviour-preserving after all - to be decided by reading the witness.  Results: refactorings/RESULTS.json.
"""
import json, os, shutil, subprocess, sys, tempfile, time

ROOT = os.path.dirname(os.path.dirname(os.path.abspath(__file__)))
sys.path.insert(0, os.path.join(ROOT, "checks"))
import registry  # noqa: E402

FAMILY = {
    "parser": ["C01", "C02", "C03", "C04", "C11", "C12", "C13", "C14", "C15"],
    "fixed_vector": ["C06", "C07", "C20"],
    "log": ["C05", "C10", "C09"],
    "string": ["C17", "C08", "C15", "C01"],
    "owning": ["C18", "C14", "C02"],
    "envdl": ["C19", "C03"],
    "hash": ["C16"],
}
FAMILY_OF = {"C01": "parser", "C02": "parser", "C03": "parser", "C04": "parser", "C11": "parser", "C12": "parser", "C13": "parser",
             "C14": "parser", "C15": "parser", "C06": "fixed_vector", "C07": "fixed_vector", "C20": "fixed_vector", "C05": "log",
             "C10": "log", "C09": "log", "C17": "string", "C08": "string", "C18": "owning", "C19": "envdl", "C16": "hash"}


def sh(cmd, **kw):
    return subprocess.run(cmd, stdout=subprocess.PIPE, stderr=subprocess.STDOUT, text=True, errors="replace", **kw)


def main():
    args = sys.argv[1:]
    allc = "--all-checks" in args
    names = [a for a in args if not a.startswith("--")]
    rd = os.path.join(ROOT, "refactorings")
    if not names:
        names = sorted(d for d in os.listdir(rd) if os.path.isdir(os.path.join(rd, d)))
    resp = os.path.join(rd, "RESULTS.json")
    results = json.load(open(resp)) if os.path.exists(resp) else {}
    for name in names:
        d = os.path.join(rd, name)
        meta = json.load(open(os.path.join(d, "meta.json")))
        prop = meta.get("property", name.split("-")[0])
        wt = tempfile.mkdtemp(prefix="rr_%s_" % name, dir="/tmp")
        os.rmdir(wt)
        sh(["git", "-C", "/repo", "worktree", "add", "--detach", wt, "HEAD"])
        try:
            r = sh(["git", "-C", wt, "apply", os.path.join(d, "patch.diff")])
            if r.returncode:
                print("%-8s patch does not apply: %s" % (name, r.stdout[-200:]))
                results.setdefault(name, {})["apply"] = "failed"
                continue
            r = sh(["python3", os.path.join(ROOT, "tools", "suite.py"), wt, os.path.join(wt, "_b")], timeout=3600)
            results.setdefault(name, {})["suite"] = [l for l in r.stdout.splitlines() if l.startswith("SUITE")][-1:]
            if r.returncode:
                print("%-8s nitro's own suite fails with this change - not a valid refactoring" % name)
                continue
            shutil.rmtree(os.path.join(wt, "_b"), ignore_errors=True)
            checks = sorted(registry.CHECKS) if allc else FAMILY[FAMILY_OF[prop]]
            for c in checks:
                t0 = time.time()
                r = sh([os.path.join(ROOT, "bin", "check"), c, "--repo", wt, "--no-evidence"], timeout=7200)
                viol = [l for l in r.stdout.splitlines() if l.startswith("VIOLATION")]
                first = ""
                lines = r.stdout.splitlines()
                for i, l in enumerate(lines):
                    if l.strip().startswith("clause="):
                        first = l.strip()[:200] + " || " + (lines[i + 1].strip()[:300] if i + 1 < len(lines) else "")
                        break
                quiet = r.returncode == 0 and not viol
                results.setdefault(name, {})[c] = {"quiet": quiet, "rc": r.returncode, "violation_lines": len(viol), "first": first,
                                                   "wall_s": round(time.time() - t0, 1)}
                print("%-8s %s: %s %s" % (name, c, "quiet" if quiet else "ALARM", first[:260]))
                sys.stdout.flush()
        finally:
            sh(["git", "-C", "/repo", "worktree", "remove", "--force", wt])
            shutil.rmtree(wt, ignore_errors=True)
        json.dump(results, open(resp, "w"), indent=1, sort_keys=True)
    return 0


if __name__ == "__main__":
    sys.exit(main())

// C02 - every spelling of a command line parses back to the assignment it spells.
// Engine B with a generator that has an inverse: enumerate every assignment (item sequence) up to k items over a
// byte-level value alphabet and every rendering of it (long/short/= form per occurrence, bundling of adjacent
// short toggles, every item order, every placement of `--` in front of trailing positionals); the real parser must
// return exactly the assignment.  The expectation comes from the generator, not from the reference automaton
// (which is cross-checked against the generator on every case).
#include "parser_check.hpp"

#include <cerrno>
#include <climits>
#include <cstdint>

using namespace pc;

struct AItem
{
    char type; // 'O' option value, 'M' multi value, 'T' tog occurrence, 'U' ugg occurrence, 'P' positional
    std::string v;
};

// long names; the alternative set makes one declared name a proper prefix of another
static std::string N_MULTI = "multi", N_UGG = "ugg";
static std::string N_OPT = "opt", L_O = "o", L_M = "m", L_T = "t", L_U = "u"; // option name and the four short names of the variant
static int DEF_TOG = 0, DEF_UGG = 0; // declared defaults of the two toggles (used when a toggle does not occur)

static Decl declaration(bool shorts)
{
    Decl D;
    D.items = { Item::opt(N_OPT, shorts ? L_O : ""), Item::multi(N_MULTI, shorts ? L_M : ""),
                Item::tog("tog", shorts ? L_T : ""), Item::tog(N_UGG, shorts ? L_U : "") };
    D.accepted = UNLIMITED;
    return D;
}

static Res expected(const Decl& D, const std::vector<AItem>& as)
{
    Res r;
    r.ok = true;
    r.opt[N_OPT] = std::nullopt;
    r.multi[N_MULTI];
    r.tog["tog"] = 0;
    r.tog[N_UGG] = 0;
    bool saw_t = false, saw_u = false;
    for (auto& a : as)
    {
        switch (a.type)
        {
        case 'O':
            r.opt[N_OPT] = a.v;
            r.provided.insert(N_OPT);
            break;
        case 'M':
            r.multi[N_MULTI].push_back(a.v);
            r.provided.insert(N_MULTI);
            break;
        case 'T':
            r.tog["tog"]++;
            saw_t = true;
            r.provided.insert("tog");
            break;
        case 'U':
            r.tog[N_UGG]++;
            saw_u = true;
            r.provided.insert(N_UGG);
            break;
        case 'P':
            r.pos.push_back(a.v);
            break;
        }
    }
    (void)D;
    if (!saw_t)
        r.tog["tog"] = DEF_TOG;
    if (!saw_u)
        r.tog[N_UGG] = DEF_UGG;
    return r;
}

// all renderings of an assignment; f(argv)
template <typename F>
static void renderings(bool shorts, const std::vector<AItem>& as, F&& f)
{
    size_t n = as.size();
    // per item: list of token groups (each a vector<string>); flag whether the rendering is a short toggle letter
    struct Alt
    {
        std::vector<std::string> toks;
        char letter = 0; // short toggle letter (bundling candidate)
    };
    std::vector<std::vector<Alt>> alts(n);
    for (size_t i = 0; i < n; i++)
    {
        auto& a = as[i];
        if (a.type == 'O' || a.type == 'M')
        {
            std::string nm = a.type == 'O' ? N_OPT : N_MULTI, s = a.type == 'O' ? L_O : L_M;
            if (is_value_token(a.v))
                alts[i].push_back({ { "--" + nm, a.v } });
            alts[i].push_back({ { "--" + nm + "=" + a.v } });
            if (shorts)
            {
                if (is_value_token(a.v))
                    alts[i].push_back({ { "-" + s, a.v } });
                alts[i].push_back({ { "-" + s + "=" + a.v } });
            }
        }
        else if (a.type == 'T' || a.type == 'U')
        {
            alts[i].push_back({ { a.type == 'T' ? std::string("--tog") : "--" + N_UGG } });
            if (shorts)
                alts[i].push_back({ { a.type == 'T' ? "-" + L_T : "-" + L_U }, a.type == 'T' ? L_T[0] : L_U[0] });
        }
        else
            alts[i].push_back({ { a.v } });
    }
    // placement of `--`: cut = n means "no separator"; cut = c means `--` in front of item c, all items >= c positional
    size_t first_tail = n;
    while (first_tail > 0 && as[first_tail - 1].type == 'P')
        first_tail--;
    for (size_t cut = first_tail; cut <= n; cut++)
    {
        // positionals in front of the separator (or without one) must be value tokens
        bool ok = true;
        for (size_t i = 0; i < cut && i < n; i++)
            if (as[i].type == 'P' && !is_value_token(as[i].v))
                ok = false;
        if (!ok)
            continue;
        std::vector<size_t> ix(n, 0);
        for (;;)
        {
            // bundling masks over gaps between adjacent short-toggle renderings in front of the cut
            std::vector<size_t> gaps;
            for (size_t i = 0; i + 1 < n; i++)
                if (i + 1 < (cut == n ? n : cut) && alts[i][ix[i]].letter && alts[i + 1][ix[i + 1]].letter)
                    gaps.push_back(i);
            for (unsigned mask = 0; mask < (1u << gaps.size()); mask++)
            {
                std::vector<std::string> av;
                for (size_t i = 0; i < n; i++)
                {
                    if (i == cut)
                        av.push_back("--");
                    auto& alt = alts[i][ix[i]];
                    bool merged = false;
                    for (size_t g = 0; g < gaps.size(); g++)
                        if (gaps[g] + 1 == i && (mask >> g & 1))
                            merged = true;
                    if (merged)
                        av.back() += alt.letter;
                    else
                        av.insert(av.end(), alt.toks.begin(), alt.toks.end());
                }
                f(av);
            }
            int p = static_cast<int>(n) - 1;
            while (p >= 0 && ++ix[p] == alts[p].size())
                ix[p--] = 0;
            if (p < 0)
                break;
        }
    }
    // a trailing separator with nothing behind it spells the same assignment
    if (first_tail == n)
    {
        bool ok = true;
        for (auto& a : as)
            if (a.type == 'P' && !is_value_token(a.v))
                ok = false;
        if (ok)
        {
            std::vector<std::string> av;
            for (size_t i = 0; i < n; i++)
                av.insert(av.end(), alts[i][0].toks.begin(), alts[i][0].toks.end());
            av.push_back("--");
            f(av);
        }
    }
}

// canonical decimal text: optional '-', digits; classify by the widest type that holds it
struct Dec
{
    bool is_decimal = false, fits_int = false, fits_ll = false, fits_ull = false;
    long long ll = 0;
    unsigned long long ull = 0;
};
static Dec decimal(const std::string& s)
{
    Dec d;
    size_t i = s.size() && s[0] == '-' ? 1 : 0;
    if (i == s.size() || s.size() - i > 20)
        return d;
    for (size_t k = i; k < s.size(); k++)
        if (!isdigit(static_cast<unsigned char>(s[k])))
            return d;
    d.is_decimal = true;
    errno = 0;
    d.ll = strtoll(s.c_str(), nullptr, 10);
    d.fits_ll = errno == 0;
    d.fits_int = d.fits_ll && d.ll >= INT_MIN && d.ll <= INT_MAX;
    if (i == 0)
    {
        errno = 0;
        d.ull = strtoull(s.c_str(), nullptr, 10);
        d.fits_ull = errno == 0;
    }
    return d;
}

// a user type for typed access whose extraction operator switches the stream to hex (and leaves it there)
struct HexByte
{
    unsigned v = 0;
};
static std::istream& operator>>(std::istream& i, HexByte& h)
{
    return i >> std::hex >> h.v;
}

static ParserCheck make_check()
{
    ParserCheck chk{ "C02", [](const std::string&) { return true; } };
    chk.on_accept = [](const Decl& D, const Res& r, const nitro::options::arguments& args, std::vector<Diff>& out) {
        // typed access returns the number whose decimal text was given
        (void)D;
        if (!r.ok)
            return;
        auto o = r.opt.find(N_OPT);
        if (o != r.opt.end() && o->second)
        {
            Dec d = decimal(*o->second);
            const std::string& t = *o->second;
            if (d.fits_int && args.as<int>(N_OPT) != static_cast<int>(d.ll))
                out.push_back({ "typed-access", "as<int>(opt) for text '" + t + "' gives " + std::to_string(args.as<int>(N_OPT)) });
            if (d.fits_ll && (args.as<long>(N_OPT) != static_cast<long>(d.ll) || args.as<long long>(N_OPT) != d.ll))
                out.push_back({ "typed-access", "as<long>/as<long long>(opt) for text '" + t + "' gives " + std::to_string(args.as<long long>(N_OPT)) });
            if (d.fits_ull && (args.as<unsigned long long>(N_OPT) != d.ull || args.as<std::size_t>(N_OPT) != static_cast<std::size_t>(d.ull)))
                out.push_back({ "typed-access", "as<unsigned long long>(opt) for text '" + t + "' gives " + std::to_string(args.as<unsigned long long>(N_OPT)) });
            if (d.is_decimal && args.as<std::string>(N_OPT) != t)
                out.push_back({ "typed-access", "as<std::string>(opt) differs from the text" });
            // typed accesses on one thread do not influence each other: an access with a user type whose extraction leaves
            // the stream in hex mode in between, then the same integer access again
            if (d.fits_int)
            {
                try
                {
                    (void)args.as<HexByte>(N_OPT);
                }
                catch (std::exception&)
                {
                }
                if (args.as<int>(N_OPT) != static_cast<int>(d.ll))
                    out.push_back({ "typed-access", "as<int>(opt) for text '" + t + "' gives " + std::to_string(args.as<int>(N_OPT)) + " after an access through a user type that reads in hex" });
            }
            if (t == "2.5" && args.as<double>(N_OPT) != 2.5)
                out.push_back({ "typed-access", "as<double>(opt) for text '2.5' gives " + std::to_string(args.as<double>(N_OPT)) });
        }
        auto m = r.multi.find(N_MULTI);
        if (m != r.multi.end())
            for (size_t i = 0; i < m->second.size() && args.count(N_MULTI) > i; i++)
            {
                Dec d = decimal(m->second[i]);
                if (d.fits_int && args.as<int>(N_MULTI, i) != static_cast<int>(d.ll))
                    out.push_back({ "typed-access", "as<int>(multi," + std::to_string(i) + ") for text '" + m->second[i] + "' gives " + std::to_string(args.as<int>(N_MULTI, i)) });
                if (d.fits_ull && args.as<unsigned long long>(N_MULTI, i) != d.ull)
                    out.push_back({ "typed-access", "as<unsigned long long>(multi," + std::to_string(i) + ") for text '" + m->second[i] + "' gives " +
                                                        std::to_string(args.as<unsigned long long>(N_MULTI, i)) });
            }
    };
    return chk;
}

int main(int argc, char** argv)
{
    auto a = mc::parse_args(argc, argv);
    auto chk = make_check();
    if (!a.replay.empty())
        return chk.replay(a.replay);

    struct Plan
    {
        int k;
        std::vector<std::string> values;
    };
    std::vector<Plan> plans;
    std::vector<std::string> v6 = { "x", "", "a=b", "a\nb", "-5", "12", "tumo" }; // "tumo": the short letters of all other items
    std::vector<std::string> v5 = { "x", "", "a=b", "-7", "--x", "tumo" };
    std::vector<std::string> v12 = { "x", "", "a=b", "a b", "\xc3\xa9\xff", "a\nb", "-5", "--x", "-", "12", "007", "--", "18446744073709551614", "-9223372036854775808", "2.5", "tumo" };
    if (!a.thorough())
        plans = { { a.asan() ? 2 : 3, v6 }, { a.asan() ? 1 : 2, v12 } };
    else
    {
        plans = { { a.asan() ? 3 : 4, v5 }, { a.asan() ? 2 : 3, v12 } };
        if (!a.asan())
            plans.push_back({ 5, { "x", "", "-5" } });
    }

    auto sh = sharded(a, "C02");
    sh.walk = [&](mc::Ctx& ctx) {
        for (int variant = 0; variant < 7; variant++)
        {
            // 5: digits as short names (`-4`, `-46`, `-9 value`); 6: an option and a multi-option whose long names begin with `no-`
            L_O = variant == 5 ? "9" : "o";
            L_M = variant == 5 ? "1" : "m";
            L_T = variant == 5 ? "4" : "t";
            L_U = variant == 5 ? "6" : "u";
            N_OPT = variant == 6 ? "no-opt" : "opt";
            DEF_TOG = variant == 4 ? 2 : 0;
            DEF_UGG = variant == 4 ? 1 : 0;
            int shorts = variant != 1;
            N_MULTI = variant == 2 ? "opt-x" : variant == 6 ? "no-cache-for" : "multi";
            N_UGG = variant == 2 ? "toggle" : "ugg";
            Decl D = declaration(shorts);
            // what is a value-taking option here was a toggle in the parser object's earlier life, and the other way round
            Decl Dprev;
            Dprev.items = { Item::tog("opt", "o"), Item::multi(N_MULTI, "u"), Item::opt("tog", "t"), Item::tog(N_UGG, "m") };
            Dprev.accepted = 1;
            if (variant == 4)
            {
                // toggles with non-zero defaults: the count is the number of occurrences, the default only when absent
                D.items[2].tdef = 2;
                D.items[3].tdef = 1;
            }
            if (variant == 3)
            {
                // the second toggle and the multi-option live in named groups (bundles then span groups)
                D.items[3].group = "danger";
                D.items[1].group = "build";
            }
            for (auto& plan : plans)
            {
                if (plan.k >= 5 && variant != 0)
                    continue; // the deepest plan runs on the first declaration only
                std::vector<AItem> types;
                for (auto& v : plan.values)
                    types.push_back({ 'O', v });
                for (auto& v : plan.values)
                    types.push_back({ 'M', v });
                types.push_back({ 'T', "" });
                types.push_back({ 'U', "" });
                for (auto& v : plan.values)
                    types.push_back({ 'P', v });
                for (int len = 0; len <= plan.k && !ctx.stop(); len++)
                {
                    std::vector<size_t> ix(len, 0);
                    for (;;)
                    {
                        std::vector<AItem> as;
                        int nopt = 0;
                        for (auto k : ix)
                        {
                            as.push_back(types[k]);
                            nopt += types[k].type == 'O';
                        }
                        if (nopt <= 1)
                        {
                            Res want = expected(D, as);
                            renderings(shorts, as, [&](const std::vector<std::string>& av) {
                                long idx = ctx.next;
                                ctx.each([&] { return chk.describe(D, av, {}); },
                                         [&](mc::Report& rep) {
                                             // generator inverse vs reference automaton (binds the reference)
                                             auto r = refparse(D, av, {});
                                             if (r.str() != want.str())
                                             {
                                                 rep.violation("harness-generator-vs-reference", "C02:harness:generator-vs-reference",
                                                               witness_json(D, av, {}),
                                                               "generator expects " + want.str() + " reference says " + r.str(), idx);
                                                 return;
                                             }
                                             chk.run_case(D, av, {}, rep, idx);
                                         });
                                // the same spelling through parse(std::vector<user_input>): the checking constructor rejects
                                // dash-leading positionals behind `--`, everything else must parse alike (a case of its own, so
                                // that a crash is attributed to this entry point)
                                long vidx = ctx.next;
                                if (len <= 4)
                                    ctx.each([&] { return chk.describe_vector_entry(D, av, {}); },
                                             [&](mc::Report& rep) { chk.run_vector_entry(D, av, {}, rep, vidx); });
                                // every rendering of an assignment of <= 2 items (first plan) also on a parser that was used before its
                                // declaration was complete, and on a parser object that held the previous variant's declaration
                                if (len <= 2 && &plan == &plans[0])
                                    chk.used_before(ctx, D, Dprev, av, {});
                            });
                        }
                        int p = len - 1;
                        while (p >= 0 && ++ix[p] == types.size())
                            ix[p--] = 0;
                        if (p < 0)
                            break;
                    }
                }
            }
        }
    };
    // sizes: a wide declaration (26 options a-z, 26 toggles A-Z, 10 multi-options 0-9, spread over 4 groups) - every item
    // alone in every spelling, all of them at once, all toggle letters in one bundle, long values around the short-string
    // and small-buffer thresholds
    auto shw = sharded(a, "C02wide");
    shw.prop = "C02";
    shw.walk = [&](mc::Ctx& ctx) {
        Decl W;
        const char* groups[] = { "", "input", "output", "zz-debug" };
        for (int i = 0; i < 26; i++)
        {
            auto o = Item::opt(std::string("opt-") + static_cast<char>('a' + i) + (i % 3 ? "" : std::string(20 + i, 'x')), std::string(1, static_cast<char>('a' + i)));
            o.group = groups[i % 4];
            W.items.push_back(o);
            auto t = Item::tog(std::string("tog-") + static_cast<char>('a' + i), std::string(1, static_cast<char>('A' + i)), i % 2 == 0);
            t.group = groups[(i + 1) % 4];
            W.items.push_back(t);
        }
        for (int i = 0; i < 10; i++)
        {
            auto m = Item::multi("multi-" + std::to_string(i), std::to_string(i));
            m.group = groups[i % 4];
            W.items.push_back(m);
        }
        W.accepted = UNLIMITED;
        std::vector<std::vector<std::string>> avs;
        std::vector<std::string> all_long, all_short, all_eq;
        std::string bundle = "-";
        std::vector<std::string> values = { "v", std::string(15, 'p'), std::string(16, 'q'), std::string(17, 'r'), std::string(255, 's'), std::string(256, 't'), std::string(4097, 'u') };
        int vi = 0;
        for (auto& it : W.items)
        {
            const std::string& v = values[vi++ % values.size()];
            if (it.kind == 't')
            {
                avs.push_back({ "--" + it.name });
                avs.push_back({ "-" + it.sh });
                avs.push_back({ "-" + it.sh + it.sh + it.sh });
                all_long.push_back("--" + it.name);
                all_short.push_back("-" + it.sh);
                all_eq.push_back("-" + it.sh);
                bundle += it.sh;
            }
            else
            {
                avs.push_back({ "--" + it.name, v });
                avs.push_back({ "--" + it.name + "=" + v });
                avs.push_back({ "-" + it.sh, v });
                avs.push_back({ "-" + it.sh + "=" + v });
                all_long.push_back("--" + it.name);
                all_long.push_back(v);
                all_short.push_back("-" + it.sh);
                all_short.push_back(v);
                all_eq.push_back("--" + it.name + "=" + v);
                if (it.kind == 'm')
                {
                    all_eq.push_back("-" + it.sh + "=" + v + "2");
                    avs.push_back({ "-" + it.sh, v, "--" + it.name + "=" + v + "2", "-" + it.sh + "=3" });
                }
            }
        }
        avs.push_back(all_long);
        avs.push_back(all_short);
        avs.push_back(all_eq);
        avs.push_back({ bundle });
        avs.push_back({ bundle, bundle + "A" });
        {
            auto rev = all_eq;
            std::reverse(rev.begin(), rev.end());
            rev.push_back("pos1");
            rev.push_back("--");
            rev.push_back("--opt-a=not-an-option");
            avs.push_back(rev);
        }
        // ramp: EVERY value length from 1 to 300 bytes and every number of 1..20 digits (with and without a leading zero run)
        // for one option and one multi-option of the wide declaration, in the four spellings - a complete range, so a
        // threshold at 10, 22, 100 or anywhere between is inside
        {
            std::vector<std::string> ramp;
            for (size_t len = 1; len <= 300; len++)
                ramp.push_back(std::string(len, static_cast<char>('a' + len % 26)));
            for (size_t dig = 1; dig <= 20; dig++)
            {
                ramp.push_back(std::string(dig, '7'));
                ramp.push_back("00" + std::string(dig, '1'));
            }
            for (auto& v : ramp)
                for (const char* nm : { "opt-b", "multi-1" })
                {
                    std::string sh = nm[0] == 'o' ? "b" : "1";
                    avs.push_back({ std::string("--") + nm, v });
                    avs.push_back({ std::string("--") + nm + "=" + v });
                    avs.push_back({ "-" + sh, v });
                    avs.push_back({ "-" + sh + "=" + v });
                }
        }
        size_t ramp_from = avs.size() - 340 * 8;
        for (size_t ai = 0; ai < avs.size(); ai++)
        {
            auto& av = avs[ai];
            long idx = ctx.next;
            ctx.each([&] { return chk.describe(W, av, {}); }, [&](mc::Report& rep) { chk.run_case(W, av, {}, rep, idx); });
            if (ai >= ramp_from)
                continue;
            long vidx = ctx.next;
            ctx.each([&] { return chk.describe_vector_entry(W, av, {}); }, [&](mc::Report& rep) { chk.run_vector_entry(W, av, {}, rep, vidx); });
            chk.used_before(ctx, W, W, av, {});
        }
    };
    auto repw = shw.run();
    repw.counters.erase("wall_ms");
    auto rep = sh.run();
    rep.merge(repw);
    for (size_t p = 0; p < plans.size(); p++)
    {
        rep.counters["plan" + std::to_string(p) + "_max_items"] = plans[p].k;
        rep.counters["plan" + std::to_string(p) + "_values"] = plans[p].values.size();
    }
    rep.notes["rule"] = "every assignment (sequence of <= k items: option value, multi-option value, toggle occurrence, positional) "
                        "over the value alphabet x every rendering (--n v | --n=v | -s v | -s=v, long/short toggles, every bundling "
                        "of adjacent short toggles, every placement of `--` before trailing positionals), with and without short "
                        "names; non-trivial = distinct (declaration, token-class sequence) with at least one option-like token";
    mc::write_out(a, rep);
    return 0;
}

// C19 - environment and dlopen wrappers report faithfully and keep libraries mapped.
//  env (engine B): names {VP_A, VP_B} x {unset, every byte string of length <= 3 over {a, =, blank, \n, 0x80, 0xff}} x
//       defaults {none given, "", "d"} x both overloads.
//  dl  (engine A, engine/seqmc.hpp): pool of 2 library objects + 2 symbol objects over two test libraries built by the
//       check and the program itself; open (existing, missing, self), load (existing, missing symbol), copy construct /
//       copy assign / move assign of libraries and symbols, call, destroy - BFS to a fixpoint.  dlopen/dlclose are
//       interposed in this executable (the calls originate in nitro's inline headers); reference = one reference count
//       per successful dlopen.  A library must stay mapped while any holder lives (checked with RTLD_NOLOAD and by
//       calling the symbol) and be closed exactly once right when the last holder dies.
#include <cstring>
#include <sstream>
#include <fstream>
#include <unistd.h>
#include <sys/stat.h>
#include <sys/wait.h>
#include <sys/auxv.h>
#include <nitro/dl/dl.hpp>
#include <nitro/env/get.hpp>

#include "../engine/seqmc.hpp"

#include <dlfcn.h>

#include <optional>

using seqmc::Finding;
using seqmc::Step;

// ---------------------------------------------------------------------------------------------
// interposition of dlopen / dlclose

struct DlLog
{
    std::map<void*, int> outstanding; // handle -> opens minus closes (as caused by the code under test)
    std::map<void*, char> lib_of;     // handle -> 'a' | 'b' | 's' (self) | '?'
    int out_of(char which) const
    {
        int n = 0;
        for (auto& kv : outstanding)
        {
            auto it = lib_of.find(kv.first);
            if (it != lib_of.end() && it->second == which)
                n += kv.second;
        }
        return n;
    }
    long opens = 0, failed_opens = 0, closes = 0;
    std::vector<std::string> errors;
    bool active = false;
};
static DlLog& dllog()
{
    static DlLog l;
    return l;
}
using dlopen_t = void* (*)(const char*, int);
using dlclose_t = int (*)(void*);
static dlopen_t real_dlopen()
{
    static dlopen_t f = reinterpret_cast<dlopen_t>(dlsym(RTLD_NEXT, "dlopen"));
    return f;
}
static dlclose_t real_dlclose()
{
    static dlclose_t f = reinterpret_cast<dlclose_t>(dlsym(RTLD_NEXT, "dlclose"));
    return f;
}
extern "C" void* dlopen(const char* file, int mode)
{
    void* h = real_dlopen()(file, mode);
    auto& l = dllog();
    if (l.active)
    {
        if (h)
        {
            l.opens++;
            l.outstanding[h]++;
            std::string f = file ? file : "";
            l.lib_of[h] = !file ? 's' : f.find("libvp_a") != std::string::npos ? 'a' : f.find("libvp_b") != std::string::npos ? 'b' : '?';
        }
        else
            l.failed_opens++;
    }
    return h;
}
extern "C" int dlclose(void* h)
{
    auto& l = dllog();
    if (l.active)
    {
        l.closes++;
        if (--l.outstanding[h] < 0)
            l.errors.push_back("dlclose called more often than dlopen succeeded for a handle");
    }
    return real_dlclose()(h);
}
extern "C" int vp_self_fn()
{
    return 3;
}

static std::string libdir()
{
    const char* d = getenv("VP_LIBDIR");
    return d ? d : ".";
}
static std::string libpath(char which)
{
    return libdir() + "/libvp_" + which + ".so";
}
// is the library currently mapped? (asked through the real dlopen, not counted)
static bool mapped(char which)
{
    void* h = real_dlopen()(libpath(which).c_str(), RTLD_NOW | RTLD_NOLOAD);
    if (h)
        real_dlclose()(h);
    return h != nullptr;
}

// ---------------------------------------------------------------------------------------------
// dl model

namespace dlm
{
using Lib = nitro::dl::dl;
using Sym = nitro::dl::symbol<int()>;
const int NL = 2, NS = 2;

struct World
{
    std::optional<Lib> lib[NL];
    std::optional<Sym> sym[NS];
    // reference: which open-group each slot holds (0 = none), and which library the group is
    int rlib[NL] = { 0, 0 }, rsym[NS] = { 0, 0 };
    std::map<int, char> group_lib; // group -> 'a' | 'b' | 's'
    int next_group = 1;
    // history that an implementation may remember: libraries from which a symbol was looked up and which were closed
    // (unmapped) afterwards - part of the state key, so the exploration continues from "b opened after a was used and closed"
    std::set<char> looked_up, closed_after_lookup;

    int holders(int g) const
    {
        int n = 0;
        for (int i = 0; i < NL; i++)
            n += rlib[i] == g;
        for (int j = 0; j < NS; j++)
            n += rsym[j] == g;
        return n;
    }
    std::string key() const
    {
        // canonical renumbering of groups by first appearance
        std::map<int, int> ren;
        auto name = [&](int g) -> std::string {
            if (!g)
                return "-";
            if (!ren.count(g))
                ren[g] = static_cast<int>(ren.size()) + 1;
            return std::string(1, group_lib.at(g)) + std::to_string(ren[g]);
        };
        std::string s = "L:";
        for (int i = 0; i < NL; i++)
            s += name(rlib[i]) + ",";
        s += "|S:";
        for (int j = 0; j < NS; j++)
            s += name(rsym[j]) + ",";
        s += "|H:";
        for (char c : closed_after_lookup)
            s += c;
        return s;
    }
    void note_history()
    {
        for (char which : { 'a', 'b' })
            if (looked_up.count(which) && live_groups(which) == 0)
                closed_after_lookup.insert(which);
    }
    int live_groups(char which) const
    {
        std::set<int> gs;
        for (int i = 0; i < NL; i++)
            if (rlib[i] && group_lib.at(rlib[i]) == which)
                gs.insert(rlib[i]);
        for (int j = 0; j < NS; j++)
            if (rsym[j] && group_lib.at(rsym[j]) == which)
                gs.insert(rsym[j]);
        return static_cast<int>(gs.size());
    }
};

struct World;
inline bool m_ok(World& w, int j);

static int expected_value(char which)
{
    return which == 'a' ? 1 : which == 'b' ? 2 : 3;
}

// apply op; findings only when f != nullptr
static bool apply(World& w, const std::string& op, std::vector<Finding>* f, const std::string& ctx)
{
    auto fail = [&](const std::string& c, const std::string& d) {
        if (f)
            f->push_back({ c, d + " " + ctx });
    };
    std::string c = op.substr(0, 2);
    int i = op.size() > 2 ? op[2] - '0' : 0, j = op.size() > 3 ? op[3] - '0' : 0;
    if (c == "oa" || c == "ob" || c == "os")
    {
        char which = c[1];
        try
        {
            if (which == 's')
                w.lib[i].emplace(nitro::dl::self);
            else
                w.lib[i].emplace(libpath(which));
            int g = w.next_group++;
            w.group_lib[g] = which;
            w.rlib[i] = g;
        }
        catch (std::exception& e)
        {
            fail("open-of-existing-library-failed", std::string("open threw ") + e.what());
            w.rlib[i] = 0;
        }
    }
    else if (c == "om")
    {
        bool threw = false;
        try
        {
            Lib l(libdir() + "/libvp_does_not_exist.so");
            fail("opening-a-missing-library-does-not-raise", "constructor returned");
        }
        catch (nitro::dl::exception& e)
        {
            threw = true;
            if (e.dlerror().empty())
                fail("dl-exception-without-loader-diagnostic", "dlerror() is empty for a missing library");
            // the exception carries the diagnostic: a kept copy still says the same after further loader activity on this
            // thread (another failing open with a different message, a successful open and close, a failing lookup)
            nitro::dl::exception kept(e);
            std::string text = e.dlerror(), what = e.what();
            if (text.find("libvp_does_not_exist") == std::string::npos)
                fail("dl-exception-without-loader-diagnostic", "dlerror() of the exception is " + mc::jstr(text) + ", which does not name the missing library");
            try
            {
                Lib other(libdir() + "/libvp_another_missing_one.so");
            }
            catch (std::exception&)
            {
            }
            try
            {
                Lib ok(libpath('a'));
                auto s2 = ok.load<int()>("vp_no_such_symbol_either");
            }
            catch (std::exception&)
            {
            }
            // a long path: the diagnostic is the loader's, whatever its length
            {
                std::string longpath = libdir() + "/" + std::string(300, 'L') + "/libvp_missing.so";
                std::string loader_says;
                if (!real_dlopen()(longpath.c_str(), RTLD_NOW))
                    if (const char* m = ::dlerror())
                        loader_says = m;
                try
                {
                    Lib l2(longpath);
                }
                catch (nitro::dl::exception& e2)
                {
                    if (!loader_says.empty() && e2.dlerror() != loader_says)
                        fail("dl-exception-without-loader-diagnostic", "for a missing library with a path of " + std::to_string(longpath.size()) + " characters dlerror() has " +
                                                                           std::to_string(e2.dlerror().size()) + " characters, the loader's diagnostic has " + std::to_string(loader_says.size()));
                }
                catch (std::exception&)
                {
                }
            }
            if (kept.dlerror() != text || std::string(kept.what()) != what)
                fail("dl-exception-loses-its-diagnostic", "a kept copy of the exception said " + mc::jstr(text) + " when caught and says " + mc::jstr(kept.dlerror()) +
                                                              " after later loader calls");
        }
        catch (std::exception& e)
        {
            threw = true;
            fail("wrong-exception-type", std::string("missing library raised ") + e.what() + " which is not nitro::dl::exception");
        }
        (void)threw;
    }
    else if (c == "ld")
    {
        if (!w.rlib[i])
            return false;
        const char* name = w.group_lib[w.rlib[i]] == 's' ? "vp_self_fn" : "vp_fn";
        try
        {
            w.sym[j].emplace(w.lib[i]->load<int()>(name));
            w.rsym[j] = w.rlib[i];
            w.looked_up.insert(w.group_lib[w.rlib[i]]);
        }
        catch (std::exception& e)
        {
            fail("lookup-of-existing-symbol-failed", std::string("load threw ") + e.what());
        }
    }
    else if (c == "lm")
    {
        if (!w.rlib[i])
            return false;
        // the failing lookup is made twice on the same library object, and once more on a copy made after the failure:
        // every one of them has to raise (a lookup must not remember a failure as an answer)
        for (int attempt = 0; attempt < 3; attempt++)
        {
            try
            {
                if (attempt < 2)
                    auto s = w.lib[i]->load<int()>("vp_no_such_symbol");
                else
                {
                    Lib copy(*w.lib[i]);
                    auto s = copy.load<int()>("vp_no_such_symbol");
                }
                fail("missing-symbol-does-not-raise", "lookup #" + std::to_string(attempt + 1) + " of a missing symbol returned");
            }
            catch (nitro::dl::exception& e)
            {
                if (e.dlerror().empty())
                    fail("dl-exception-without-loader-diagnostic", "dlerror() is empty for a missing symbol");
                nitro::dl::exception kept(e);
                std::string text = e.dlerror();
                try
                {
                    Lib other(libdir() + "/libvp_another_missing_one.so");
                }
                catch (std::exception&)
                {
                }
                if (kept.dlerror() != text)
                    fail("dl-exception-loses-its-diagnostic", "a kept copy of the exception said " + mc::jstr(text) + " when caught and says " + mc::jstr(kept.dlerror()) +
                                                                  " after a later failing open");
            }
            catch (std::exception& e)
            {
                fail("wrong-exception-type", std::string("missing symbol raised ") + e.what() + " which is not nitro::dl::exception");
            }
        }
    }
    else if (c == "cl")
    { // library slot j = copy of slot i (assignment if j is engaged, construction otherwise)
        if (!w.rlib[i] || i == j)
            return false;
        if (w.lib[j])
            *w.lib[j] = *w.lib[i];
        else
            w.lib[j].emplace(*w.lib[i]);
        w.rlib[j] = w.rlib[i];
    }
    else if (c == "ml")
    { // library slot j = moved from slot i; slot i is destroyed afterwards
        if (!w.rlib[i] || i == j)
            return false;
        if (w.lib[j])
            *w.lib[j] = std::move(*w.lib[i]);
        else
            w.lib[j].emplace(std::move(*w.lib[i]));
        w.lib[i].reset();
        w.rlib[j] = w.rlib[i];
        w.rlib[i] = 0;
    }
    else if (c == "cs")
    { // symbol slot j = copy of slot i
        if (!w.rsym[i] || i == j)
            return false;
        if (w.sym[j])
            *w.sym[j] = *w.sym[i];
        else
            w.sym[j].emplace(*w.sym[i]);
        w.rsym[j] = w.rsym[i];
    }
    else if (c == "ms")
    {
        if (!w.rsym[i] || i == j)
            return false;
        if (w.sym[j])
            *w.sym[j] = std::move(*w.sym[i]);
        else
            w.sym[j].emplace(std::move(*w.sym[i]));
        w.sym[i].reset();
        w.rsym[j] = w.rsym[i];
        w.rsym[i] = 0;
    }
    else if (c == "ca")
    {
        if (!w.rsym[i])
            return false;
        int got = (*w.sym[i])();
        int want = expected_value(w.group_lib[w.rsym[i]]);
        if (got != want)
            fail("symbol-calls-into-the-wrong-library", "call returned " + std::to_string(got) + " expected " + std::to_string(want));
    }
    else if (c == "dl")
    {
        if (!w.lib[i])
            return false;
        w.lib[i].reset();
        w.rlib[i] = 0;
    }
    else if (c == "ds")
    {
        if (!w.sym[i])
            return false;
        w.sym[i].reset();
        w.rsym[i] = 0;
    }
    else
    {
        fprintf(stderr, "unknown op %s\n", op.c_str());
        abort();
    }
    return true;
}

static std::vector<std::string> ops(const std::string&)
{
    std::vector<std::string> o;
    for (int i = 0; i < NL; i++)
    {
        for (auto c : { "oa", "ob", "os", "lm", "dl" })
            o.push_back(c + std::to_string(i));
        for (int j = 0; j < NS; j++)
            o.push_back("ld" + std::to_string(i) + std::to_string(j));
        for (int j = 0; j < NL; j++)
            if (i != j)
            {
                o.push_back("cl" + std::to_string(i) + std::to_string(j));
                o.push_back("ml" + std::to_string(i) + std::to_string(j));
            }
    }
    o.push_back("om");
    for (int i = 0; i < NS; i++)
    {
        for (auto c : { "ca", "ds" })
            o.push_back(c + std::to_string(i));
        for (int j = 0; j < NS; j++)
            if (i != j)
            {
                o.push_back("cs" + std::to_string(i) + std::to_string(j));
                o.push_back("ms" + std::to_string(i) + std::to_string(j));
            }
    }
    return o;
}

// loader-level oracle: mapping and open/close balance must match the reference
static void observe(World& w, std::vector<Finding>& f, const std::string& ctx)
{
    auto& l = dllog();
    for (char which : { 'a', 'b' })
    {
        int groups = w.live_groups(which);
        bool m = mapped(which);
        if (groups > 0 && !m)
            f.push_back({ "library-unmapped-while-still-in-use", std::string("libvp_") + which + " is not mapped although " + std::to_string(groups) + " open(s) still have holders " + ctx });
        if (groups == 0 && m)
            f.push_back({ "library-not-closed-after-last-holder-died", std::string("libvp_") + which + " is still mapped although nothing refers to it " + ctx });
    }
    // open/close balance per library: some successful dlopen must be outstanding exactly while a holder lives (how many
    // dlopen calls the wrapper uses per object is its own business)
    for (char which : { 'a', 'b', 's' })
    {
        int groups = w.live_groups(which);
        int out = l.out_of(which);
        if (groups > 0 && out <= 0)
            f.push_back({ "dlclose-too-early-or-twice", std::string("library '") + which + "': every dlopen has been closed although " + std::to_string(groups) + " open(s) still have holders " + ctx });
        if (groups == 0 && out > 0)
            f.push_back({ "dlclose-missing", std::string("library '") + which + "': " + std::to_string(out) + " dlopen call(s) not closed although nothing refers to the library any more " + ctx });
    }
    for (auto& e : l.errors)
        f.push_back({ "dlclose-too-early-or-twice", e + " " + ctx });
    l.errors.clear();
    // every live symbol still works
    for (int j = 0; j < NS; j++)
        if (w.rsym[j] && (m_ok(w, j)))
        {
            int got = (*w.sym[j])();
            int want = expected_value(w.group_lib[w.rsym[j]]);
            if (got != want)
                f.push_back({ "symbol-calls-into-the-wrong-library", "symbol slot " + std::to_string(j) + " returns " + std::to_string(got) + " expected " + std::to_string(want) + " " + ctx });
        }
}
} // namespace dlm

// only call a symbol whose library is mapped, otherwise the unmapped case has already been reported and the call
// would just crash the worker
inline bool dlm::m_ok(World& w, int j)
{
    char which = w.group_lib[w.rsym[j]];
    return which == 's' || mapped(which);
}

// sizes: many owners of one library (beyond a narrow reference counter): n copies of the library object and n symbols /
// symbol copies, destroyed in three orders; the library stays mapped until the last one is gone and is closed exactly once
static void dl_wide(mc::Report& rep)
{
    using dlm::Lib;
    using dlm::Sym;
    for (int n : { 17, 256, 257, 1000, 70000 })
        for (int order = 0; order < 3; order++)
        {
            auto& l = dllog();
            l = DlLog();
            l.active = true;
            std::string problem;
            {
                std::vector<std::unique_ptr<Lib>> libs;
                std::vector<std::unique_ptr<Sym>> syms;
                libs.emplace_back(new Lib(libpath('a')));
                for (int i = 1; i < n; i++)
                    libs.emplace_back(new Lib(*libs[i / 2]));
                syms.emplace_back(new Sym(libs[n - 1]->load<int()>("vp_fn")));
                for (int i = 1; i < n; i++)
                    syms.emplace_back(i % 3 ? new Sym(*syms[i / 2]) : new Sym(libs[i]->load<int()>("vp_fn")));
                // destroy all but one holder: first the libraries or first the symbols or alternating
                auto drop = [&](std::vector<std::unique_ptr<Lib>>& v, size_t keep) {
                    for (size_t i = 0; i < v.size(); i++)
                        if (i != keep)
                            v[i].reset();
                };
                auto drops = [&](std::vector<std::unique_ptr<Sym>>& v, size_t keep) {
                    for (size_t i = 0; i < v.size(); i++)
                        if (i != keep)
                            v[i].reset();
                };
                if (order == 0)
                {
                    drop(libs, libs.size()); // every library object
                    drops(syms, n / 3);      // every symbol but one
                    if (!mapped('a'))
                        problem = "library unmapped while one symbol copy is still alive";
                    else if ((*syms[n / 3])() != 1)
                        problem = "the surviving symbol does not call into its library";
                }
                else if (order == 1)
                {
                    drops(syms, syms.size());
                    drop(libs, n - 1);
                    if (!mapped('a'))
                        problem = "library unmapped while one library copy is still alive";
                }
                else
                {
                    for (int i = 0; i < n; i++)
                    {
                        if (i != n / 2)
                            libs[i].reset();
                        syms[n - 1 - i].reset();
                    }
                    if (!mapped('a'))
                        problem = "library unmapped while one library copy is still alive";
                }
                if (problem.empty() && l.closes != 0 && l.out_of('a') <= 0)
                    problem = "every dlopen of the library has been closed although a holder is alive";
            }
            if (problem.empty() && l.opens != l.closes)
                problem = std::to_string(l.opens) + " successful dlopen vs " + std::to_string(l.closes) + " dlclose after every holder was destroyed";
            if (problem.empty() && mapped('a'))
                problem = "library still mapped after every holder was destroyed";
            l.active = false;
            rep.count("executions");
            rep.count("wide_cases");
            if (!problem.empty())
                rep.violation("library-lifetime(many-holders)", "C19:library-lifetime:wide", mc::J().s("model", "wide").n("n", n).n("order", order).str(),
                              std::to_string(n) + " library copies and " + std::to_string(n) + " symbols, destruction order " + std::to_string(order) + ": " + problem, 0);
        }
}

static Step dl_step(const std::vector<std::string>& hist, const std::string& op)
{
    Step st;
    auto& l = dllog();
    l = DlLog();
    l.active = true;
    {
        dlm::World w;
        for (auto& h : hist)
        {
            dlm::apply(w, h, nullptr, "");
            w.note_history();
        }
        st.prefix_key = w.key();
        std::string ctx = "after [" + seqmc::join_hist(hist) + "] then " + op;
        bool enabled = dlm::apply(w, op, &st.findings, ctx);
        if (enabled)
        {
            w.note_history();
            dlm::observe(w, st.findings, ctx);
            st.next_key = w.key();
            st.outcome = st.next_key;
        }
        else
            st.outcome = "not-enabled";
    }
    // teardown: everything destroyed -> every successful open closed exactly once, nothing mapped
    if (st.findings.empty())
    {
        if (l.opens != l.closes)
            st.findings.push_back({ l.opens > l.closes ? "dlclose-missing" : "dlclose-too-early-or-twice",
                                    "after destroying every object: " + std::to_string(l.opens) + " successful dlopen vs " + std::to_string(l.closes) + " dlclose; [" +
                                        seqmc::join_hist(hist) + "] then " + op });
        for (char which : { 'a', 'b' })
            if (mapped(which))
                st.findings.push_back({ "library-not-closed-after-last-holder-died", std::string("libvp_") + which + " still mapped after every object was destroyed; [" +
                                                                                         seqmc::join_hist(hist) + "] then " + op });
    }
    l.active = false;
    return st;
}

// ---------------------------------------------------------------------------------------------
// env part

static std::vector<std::string> env_values()
{
    const char al[] = { 'a', '=', ' ', '\n', static_cast<char>(0x80), static_cast<char>(0xff) };
    std::vector<std::string> out = { "" };
    size_t from = 0;
    for (int len = 1; len <= 3; len++)
    {
        size_t to = out.size();
        for (size_t i = from; i < to; i++)
            for (char c : al)
                out.push_back(out[i] + c);
        from = to;
    }
    // sizes: around the short-string and small-buffer thresholds, and long
    for (size_t n : { 15u, 16u, 17u, 255u, 256u, 257u, 4096u, 100000u })
        out.push_back(std::string(n, 'v') + "=end");
    // values that an implementation might use as an internal marker for "not set", and the defaults the check passes
    for (auto v : { "<unset>", "unset", "(null)", "NULL", "nullptr", "<none>", "none", "default", "\x01", "0", "-1" })
        out.push_back(v);
    return out;
}

static void check_env(const std::string& name, const std::string* value, const std::string& other_name, std::vector<Finding>& f, mc::Report& rep)
{
    if (value)
        setenv(name.c_str(), value->c_str(), 1);
    else
        unsetenv(name.c_str());
    setenv(other_name.c_str(), "other", 1);
    std::string ctx = name + (value ? "=" + mc::jstr(*value) : " unset");
    for (const char* def : { static_cast<const char*>(nullptr), "", "d" })
    {
        std::string got;
        try
        {
            got = def ? nitro::env::get(name, def) : nitro::env::get(name);
        }
        catch (std::exception& e)
        {
            f.push_back({ "get-with-default-threw", ctx + ": " + e.what() });
            continue;
        }
        rep.count("executions");
        std::string want = value ? *value : (def ? def : "");
        if (got != want)
            f.push_back({ value ? "value-not-returned-exactly" : "default-not-returned-when-unset",
                          ctx + " default " + (def ? mc::jstr(def) : "<none>") + ": got " + mc::jstr(got) + " expected " + mc::jstr(want) });
    }
    bool threw = false;
    std::string got;
    try
    {
        got = nitro::env::get(name, nitro::env::no_default);
    }
    catch (std::exception&)
    {
        threw = true;
    }
    rep.count("executions");
    if (value && threw)
        f.push_back({ "no-default-form-raises-although-set", ctx });
    if (value && !threw && got != *value)
        f.push_back({ "value-not-returned-exactly", ctx + " (no-default form): got " + mc::jstr(got) });
    if (!value && !threw)
        f.push_back({ "no-default-form-does-not-raise-when-unset", ctx + ": returned " + mc::jstr(got) });
    if (nitro::env::get(other_name, "x") != "other")
        f.push_back({ "another-variable-disturbed", ctx });
}

// ---- the process runs in secure-execution mode (AT_SECURE: a set-user-ID executable or one with file capabilities - a
// usual deployment of measurement tools).  The environment is still the environment: every variable that is set must
// be reported with its exact value.  The driver copies itself, makes the copy set-user-ID `nobody`, and runs the whole env
// value list in that process (one variable inherited through exec, the others set by the process itself).  Where the
// file system does not honour set-user-ID (or the check does not run as root) the phase reports that it could not run.
static int secure_child()
{
    if (getauxval(AT_SECURE) == 0)
        return 3;
    int bad = 0;
    {
        // inherited through exec: the reference is the environment block itself
        std::string want;
        bool found = false;
        for (char** e = environ; e && *e; e++)
            if (strncmp(*e, "VP_INHERITED=", 13) == 0)
            {
                want = *e + 13;
                found = true;
            }
        std::string got = nitro::env::get("VP_INHERITED", "d");
        if (!found || got != want)
        {
            printf("value-not-returned-exactly\tsecure-execution mode, VP_INHERITED inherited through exec: got %s expected %s\n", mc::jstr(got).c_str(), mc::jstr(want).c_str());
            bad++;
        }
    }
    auto vals = env_values();
    mc::Report rep;
    for (int k = -1; k < static_cast<int>(vals.size()) && bad < 5; k++)
    {
        std::vector<Finding> f;
        check_env("VP_A", k >= 0 ? &vals[k] : nullptr, "VP_B", f, rep);
        for (auto& x : f)
        {
            printf("%s\tsecure-execution mode, %s\n", x.clause.c_str(), x.detail.substr(0, 300).c_str());
            bad++;
        }
    }
    printf("cases\t%zu\n", vals.size() + 2);
    return bad ? 1 : 0;
}

static void secure_phase(const mc::Args& a, mc::Report& total)
{
    total.counters["secure_execution_mode_cases"] = 0;
    if (a.asan() || geteuid() != 0)
    {
        total.notes["secure_execution_mode"] = a.asan() ? "not run in the sanitizer variant" : "not run: the check is not running as root, cannot make a set-user-ID copy";
        return;
    }
    std::string path = a.tmpdir + "/c19_secure_child." + std::to_string(getpid());
    {
        std::ifstream in("/proc/self/exe", std::ios::binary);
        std::ofstream out(path, std::ios::binary);
        out << in.rdbuf();
    }
    if (chown(path.c_str(), 65534, 65534) != 0 || chmod(path.c_str(), 04755) != 0)
    {
        total.notes["secure_execution_mode"] = "not run: could not make a set-user-ID copy of the driver";
        unlink(path.c_str());
        return;
    }
    int fd[2];
    if (pipe(fd) != 0)
        return;
    pid_t pid = fork();
    if (pid == 0)
    {
        dup2(fd[1], 1);
        close(fd[0]);
        close(fd[1]);
        setenv("VP_INHERITED", "inherited value=\xc3\xa4 ", 1);
        execl(path.c_str(), path.c_str(), "--secure-env-child", static_cast<char*>(nullptr));
        _exit(4);
    }
    close(fd[1]);
    std::string outp;
    char buf[4096];
    ssize_t n;
    while ((n = read(fd[0], buf, sizeof buf)) > 0)
        outp.append(buf, static_cast<size_t>(n));
    close(fd[0]);
    int st = 0;
    waitpid(pid, &st, 0);
    unlink(path.c_str());
    int rc = WIFEXITED(st) ? WEXITSTATUS(st) : 100 + WTERMSIG(st);
    if (rc == 3 || rc == 4)
    {
        total.notes["secure_execution_mode"] = rc == 3 ? "not run: the file system of the build directory does not honour set-user-ID (AT_SECURE stayed 0)" : "not run: exec of the set-user-ID copy failed";
        return;
    }
    std::istringstream is(outp);
    std::string line;
    bool any = false;
    while (std::getline(is, line))
    {
        auto tab = line.find('\t');
        if (tab == std::string::npos)
            continue;
        std::string clause = line.substr(0, tab), detail = line.substr(tab + 1);
        if (clause == "cases")
        {
            total.counters["secure_execution_mode_cases"] = atol(detail.c_str());
            total.count("executions", atol(detail.c_str()));
            continue;
        }
        any = true;
        total.violation(clause, "C19:" + clause + ":secure-execution-mode", mc::J().s("secure_execution_mode", "1").str(), detail, 0);
    }
    if (rc != 0 && !any)
        total.violation("harness:secure-mode-child-failed", "C19:harness:secure-mode-child", mc::J().s("secure_execution_mode", "1").str(),
                        "the set-user-ID copy of the driver ended with status " + std::to_string(rc), 0);
    total.notes["secure_execution_mode"] = "run: set-user-ID copy of the driver, AT_SECURE = 1";
}

int main(int argc, char** argv)
{
    if (argc >= 2 && strcmp(argv[1], "--secure-env-child") == 0)
        return secure_child();
    auto a = mc::parse_args(argc, argv);
    seqmc::Spec d;
    d.id = "C19";
    d.name = "dl";
    d.initial_key = "L:-,-,|S:-,-,|H:";
    d.ops = dlm::ops;
    d.step = dl_step;
    auto vals = env_values();
    if (!a.replay.empty())
    {
        auto doc = js::load(a.replay);
        const js::Value& w = doc.has("witness") ? doc.at("witness") : doc;
        if (w.has("secure_execution_mode"))
        {
            mc::Report r;
            secure_phase(a, r);
            for (auto& v : r.violations)
                printf("  FAILED clause: %s\n    %s\n", v.second.clause.c_str(), v.second.detail.c_str());
            if (r.violations.empty())
                printf("replay C19 (secure-execution mode): conforms (%s)\n", r.notes["secure_execution_mode"].c_str());
            return r.violations.empty() ? 0 : 1;
        }
        if (w.has("model") && w.s("model") == "wide")
        {
            mc::Report r;
            dl_wide(r);
            for (auto& v : r.violations)
                printf("  FAILED clause: %s\n    %s\n", v.second.clause.c_str(), v.second.detail.c_str());
            if (r.violations.empty())
                printf("replay C19 (many holders): conforms\n");
            return r.violations.empty() ? 0 : 1;
        }
        if (w.has("model"))
            return seqmc::replay({ d }, w);
        std::vector<Finding> f;
        mc::Report rep;
        std::string v = w.s("value");
        check_env(w.s("name"), w.flag("set") ? &v : nullptr, w.s("name") == "VP_A" ? "VP_B" : "VP_A", f, rep);
        printf("replay C19 env %s\n", w.s("name").c_str());
        for (auto& x : f)
            printf("  FAILED clause: %s\n    %s\n", x.clause.c_str(), x.detail.c_str());
        if (f.empty())
            printf("  conforms\n");
        return f.empty() ? 0 : 1;
    }
    // ---- env
    mc::Sharded sh;
    sh.id = "C19env";
    sh.prop = "C19";
    sh.nworkers = a.jobs;
    sh.tmpdir = a.tmpdir;
    sh.walk = [&](mc::Ctx& ctx) {
        for (auto name : { "VP_A", "VP_B" })
            for (int k = -1; k < static_cast<int>(vals.size()); k++)
            {
                long idx = ctx.next;
                ctx.each([&] { return mc::Desc{ mc::J().s("name", name).b("set", k >= 0).s("value", k >= 0 ? vals[k] : "").str(), k < 0 ? "unset" : vals[k].empty() ? "empty" : "value" }; },
                         [&](mc::Report& rep) {
                             std::vector<Finding> f;
                             check_env(name, k >= 0 ? &vals[k] : nullptr, std::string(name) == "VP_A" ? "VP_B" : "VP_A", f, rep);
                             rep.transitions.insert(mc::hash(std::string("env") + name + std::to_string(k)));
                             rep.nontrivial.insert(mc::hash(std::string("env") + name + std::to_string(k)));
                             rep.states.insert(mc::hash(std::string("env") + std::to_string(k)));
                             for (auto& x : f)
                                 rep.violation(x.clause, "C19:" + x.clause + ":" + (k < 0 ? "unset" : vals[k].empty() ? "empty" : "value"),
                                               mc::J().s("name", name).b("set", k >= 0).s("value", k >= 0 ? vals[k] : "").str(), x.detail, idx);
                             if (idx % 101 == 0)
                                 rep.sample(mc::J().s("name", name).b("set", k >= 0).s("value", k >= 0 ? vals[k] : "").str());
                         });
            }
    };
    auto total = sh.run();
    secure_phase(a, total);
    // ---- dl
    auto r = seqmc::explore(d, a);
    total.merge(r.rep);
    dl_wide(total);
    total.counters["env_values"] = vals.size();
    total.notes["rule"] = "env: 2 names x {unset, 259 byte strings of length <= 3 over {a,=,blank,\\n,0x80,0xff}} x 3 defaults x 2 overloads; dl: "
                          "BFS to a fixpoint over a pool of 2 library + 2 symbol objects, 2 test libraries + the program itself, 34 operations "
                          "from every state; every (state, operation) and every (name, value) is distinct and non-trivial";
    mc::write_out(a, total);
    return 0;
}

// C10 - a disabled log statement costs nothing and evaluates nothing lazily.  See logmc.hpp / logmain.hpp.
#include "logmain.hpp"
int main(int argc, char** argv)
{
    return lm::log_main(argc, argv, "C10");
}

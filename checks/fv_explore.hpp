// Explorer over fixed_vector states (see fv.hpp): level-synchronous BFS to a fixpoint, two-vector phase over
// pairs of abstract-state representatives, fault enumeration.  Each phase is one sharded run; discovered
// states travel back to the parent as report notes ("S\t<concrete key>" -> recipe).
#pragma once

#include "fv.hpp"

#include <map>

namespace fv
{

struct Config
{
    std::string owner;   // "C06" or "C07": whose clauses are reported
    int max_cap = 2;
    int nvalues = 2;
    bool faults = false;
    int max_levels = 40;
    size_t max_states = 400000; // a state space that keeps growing (e.g. states read from outside the storage) is cut off
    bool two_vector = true;
    std::string type_name = "Tracked";
};

template <typename T>
struct Explorer
{
    Config cfg;
    mc::Args args;
    std::map<std::string, std::string> states; // concrete key -> recipe
    std::map<std::string, std::string> reps;   // abstract key -> recipe (first found)
    mc::Report total;
    bool exhaustive = true;
    double started = mc::now_s();

    // ---- materialise a recipe on a fresh world; returns result slot or -1
    static int materialise(const std::string& recipe, World<T>& w, std::vector<Op>* ops_out = nullptr)
    {
        int slot = 0;
        auto ops = parse_recipe(recipe, &slot);
        for (auto& o : ops)
            if (!w.apply(o))
                return -1;
        if (ops_out)
            *ops_out = ops;
        w.ensure(slot);
        return w.fv[slot] ? slot : -1;
    }

    std::vector<Op> roots() const
    {
        std::vector<Op> r;
        for (int c = 0; c <= cfg.max_cap; c++)
        {
            Op o;
            o.code = "NEW";
            o.a = c;
            r.push_back(o);
            if (std::is_copy_constructible<T>::value)
                for (int len = 0; len <= c + 1; len++)
                {
                    Op i;
                    i.code = "NEWIT";
                    i.a = c;
                    i.b = len;
                    r.push_back(i);
                }
        }
        if (std::is_copy_constructible<T>::value)
            for (int len = 0; len <= std::min(3, cfg.max_cap); len++)
            {
                Op o;
                o.code = "NEWIL";
                o.a = len;
                r.push_back(o);
            }
        return r;
    }

    // single-vector operations enabled in a state with capacity c and size s (slot filled in later)
    std::vector<Op> ops_for(size_t c, size_t s) const
    {
        std::vector<Op> ops;
        auto add = [&](const char* code, int a = 0, int b = 0) {
            Op o;
            o.code = code;
            o.a = a;
            o.b = b;
            ops.push_back(o);
        };
        bool copyable = std::is_copy_constructible<T>::value;
        for (int x = 1; x <= cfg.nvalues; x++)
        {
            add("EB", x);
            add("IM", x);
            if (copyable)
            {
                add("PB", x);
                add("IC", x);
            }
        }
        for (size_t k = 0; k <= std::min(s + 1, c); k++)
            for (int x = 1; x <= cfg.nvalues; x++)
                add("EM", static_cast<int>(k), x);
        if (copyable)
            for (size_t j = 0; j < s; j++)
            {
                // an element of the container itself as the argument
                add("EBS", static_cast<int>(j));
                add("PBS", static_cast<int>(j));
                add("ICS", static_cast<int>(j));
                for (size_t k = 0; k <= s; k++)
                    add("EMS", static_cast<int>(k), static_cast<int>(j));
            }
        add("POP");
        for (size_t k = 0; k <= std::min(s, c); k++)
            add("ER", static_cast<int>(k));
        for (size_t i = 0; i <= std::min<size_t>(c + 1, 7); i++)
        {
            add("AT", static_cast<int>(i));
            add("ATC", static_cast<int>(i));
            add("GET", static_cast<int>(i));
        }
        add("AT", -1); // the largest index there is (an index computed as size() - 1 on an empty container)
        add("ATC", -1);
        add("EB0", 1 + static_cast<int>(s % cfg.nvalues)); // emplace_back() without arguments
        for (size_t i = 0; i < s; i++)
            add("WR", static_cast<int>(i), 1 + static_cast<int>(i % cfg.nvalues));
        for (size_t k = 0; k <= std::min(s + 1, c); k++)
            for (size_t len = 0; len <= c + 1; len++)
                add("IR", static_cast<int>(k), static_cast<int>(len));
        for (size_t len = 0; len <= c + 1; len++)
            add("PBR", static_cast<int>(len));
        // the same through single-pass input iterators: append at the end, insert at the front
        for (size_t len = 0; len <= c + 1; len++)
        {
            add("PBRI", static_cast<int>(len));
            add("IRI", static_cast<int>(s), static_cast<int>(len));
            if (s > 0)
                add("IRI", 0, static_cast<int>(len));
        }
        if (copyable)
        {
            add("CC");
            for (int len = 0; len <= std::min(3, cfg.max_cap); len++)
                add("LA", len);
            add("SELF");
        }
        add("MC");
        return ops;
    }

    // ---- one transition under the oracle; returns findings; fills successors (key -> recipe, akey -> recipe)
    struct Outcome
    {
        std::vector<Finding> findings;
        std::vector<std::pair<std::string, std::string>> succ, asucc;
        long element_ops = 0;
        bool fault_escaped = false;
        std::string from_key;
    };

    Outcome step(const std::string& recipe, Op op, const std::string& recipe_b = "", long fault_at = 0) const
    {
        Outcome out;
        {
            World<T> w;
            w.nvalues = cfg.nvalues;
            std::vector<Op> ops;
            int slot = materialise(recipe, w, &ops);
            if (slot < 0)
            {
                out.findings.push_back({ "harness", "recipe-does-not-materialise", recipe });
                return out;
            }
            out.from_key = w.key(slot);
            int other = -1;
            if (!recipe_b.empty())
            {
                // second operand: renumber its slots behind the first recipe's
                int base = max_slot(ops) + 1, sb = 0;
                auto ops_b = parse_recipe(recipe_b, &sb);
                for (auto& o : ops_b)
                {
                    o.slot += base;
                    if (o.other >= 0)
                        o.other += base;
                    if (!w.apply(o))
                    {
                        out.findings.push_back({ "harness", "recipe-does-not-materialise", recipe_b });
                        return out;
                    }
                    ops.push_back(o);
                }
                other = sb + base;
                w.ensure(other);
                if (!w.fv[other])
                    return out;
                out.from_key += " <- " + w.key(other);
            }
            // bind the operation to slots
            std::vector<int> involved;
            if (op.code == "CC" || op.code == "MC")
            {
                op.other = slot;
                op.slot = max_slot(ops) + 1;
                involved = { op.slot, slot };
            }
            else if (op.code == "SELF")
            {
                op.code = "CA";
                op.slot = slot;
                op.other = slot;
                involved = { slot };
            }
            else if (op.code == "CA" || op.code == "MA")
            {
                op.slot = slot;
                op.other = other;
                involved = { slot, other };
            }
            else
            {
                op.slot = slot;
                involved = { slot };
            }
            w.out = &out.findings;
            w.fault_mode = fault_at > 0;
            w.fault_at = fault_at;
            bool completed = w.apply(op);
            out.element_ops = w.element_ops;
            out.fault_escaped = !completed;
            w.fault_at = 0;
            std::string after = recipe + (recipe_b.empty() ? "" : " || " + recipe_b) + " then " + op.str() +
                                (fault_at ? " with element operation #" + std::to_string(fault_at) + " throwing" : "");
            for (int s : involved)
                w.observe(s, after);
            // copies must be independent of their source
            if (!fault_at && out.findings.empty() && (op.code == "CC" || op.code == "CA") && op.other != op.slot && w.fv[op.slot] &&
                w.fv[op.other])
            {
                auto& tgt = *w.fv[op.slot];
                auto& src = *w.fv[op.other];
                if (tgt.capacity() > 0 && src.capacity() > 0 && tgt.data() == src.data())
                    out.findings.push_back({ "C07", "copy-shares-storage-with-source", after });
                if (tgt.size() > 0)
                {
                    auto k = w.key(op.other);
                    assign_value(tgt[0], 77);
                    if (w.key(op.other) != k)
                        out.findings.push_back({ "C07", "copy-not-independent", "writing the copy changed the source; " + after });
                }
                if (src.size() > 0)
                {
                    auto k = w.key(op.slot);
                    assign_value(src[0], 88);
                    if (w.key(op.slot) != k)
                        out.findings.push_back({ "C07", "copy-not-independent", "writing the source changed the copy; " + after });
                }
            }
            else if (!fault_at && out.findings.empty())
            {
                ops.push_back(op);
                for (int s : involved)
                    if (w.fv[s])
                    {
                        out.succ.push_back({ w.key(s), recipe_str(ops, s) });
                        out.asucc.push_back({ w.akey(s), recipe_str(ops, s) });
                    }
            }
            if ((op.code == "CC" || op.code == "CA") && !fault_at && out.findings.empty() && out.succ.empty())
            {
                // successors of copy operations are recorded from a clean replay (the independence test mutated the world)
                World<T> w2;
                w2.nvalues = cfg.nvalues;
                std::vector<Op> all = ops;
                all.push_back(op);
                bool ok = true;
                for (auto& o : all)
                    ok = ok && w2.apply(o);
                if (ok)
                    for (int s : involved)
                        if (w2.fv[s])
                        {
                            out.succ.push_back({ w2.key(s), recipe_str(all, s) });
                            out.asucc.push_back({ w2.akey(s), recipe_str(all, s) });
                        }
            }
        } // world destroyed here
        auto& reg = R();
        if (!reg.live.empty())
        {
            out.findings.push_back({ "C06", fault_at ? "element-leaked-after-element-exception" : "element-leaked",
                                     std::to_string(reg.live.size()) + " element object(s) still alive after every container was destroyed; " + recipe + " then " + op.str() });
            reg.live.clear();
        }
        for (auto& e : reg.errors)
            out.findings.push_back({ "C06", fault_at ? "element-lifetime-error-after-element-exception" : "element-lifetime-error", e + "; " + recipe + " then " + op.str() });
        reg.errors.clear();
        return out;
    }

    void record(const Outcome& o, const std::string& recipe, const Op& op, const std::string& recipe_b, long fault_at, mc::Report& rep, long idx) const
    {
        rep.count("executions");
        rep.transitions.insert(mc::hash(o.from_key + "|" + op.str() + "|" + std::to_string(fault_at)));
        for (auto& f : o.findings)
        {
            if (f.owner != cfg.owner && f.owner != "harness")
            {
                rep.count("not_judged_here:" + f.owner + ":" + f.clause);
                continue;
            }
            std::string w = mc::J().s("type", cfg.type_name).n("nvalues", cfg.nvalues).s("recipe", recipe).s("recipe_b", recipe_b).s("op", op.str()).n("fault_at", fault_at).str();
            rep.violation(f.clause, cfg.owner + ":" + f.clause + ":" + cfg.type_name + ":" + op.code + (fault_at ? "+fault" : ""), w, f.detail, idx);
        }
        for (auto& s : o.asucc)
            rep.outcomes.insert(mc::hash(op.code + ">" + s.first));
        if (o.asucc.empty())
            rep.outcomes.insert(mc::hash(op.code + (o.fault_escaped ? ">fault" : ">no-successor")));
        for (auto& s : o.succ)
            rep.notes["S\t" + s.first] = s.second;
        for (auto& s : o.asucc)
            if (!rep.notes.count("A\t" + s.first))
                rep.notes["A\t" + s.first] = s.second;
    }

    mc::Sharded sharded(const std::string& phase)
    {
        mc::Sharded sh;
        sh.id = cfg.owner + "." + cfg.type_name + "." + phase;
        sh.prop = cfg.owner;
        sh.nworkers = args.jobs;
        sh.tmpdir = args.tmpdir;
        sh.case_timeout_s = 20;
        // every phase gets what is left of the wall-clock budget; when it runs out the phase stops taking cases
        if (args.deadline_s > 0)
            sh.deadline_s = std::max(2.0, args.deadline_s - (mc::now_s() - started));
        return sh;
    }

    // absorb a phase report: new states -> returns list of new concrete keys
    std::vector<std::string> absorb(mc::Report& rep)
    {
        std::vector<std::string> fresh;
        for (auto& n : rep.notes)
        {
            if (n.first.rfind("S\t", 0) == 0)
            {
                auto k = n.first.substr(2);
                if (states.emplace(k, n.second).second)
                    fresh.push_back(k);
            }
            else if (n.first.rfind("A\t", 0) == 0)
                reps.emplace(n.first.substr(2), n.second);
        }
        rep.notes.clear();
        for (auto& k : fresh)
            total.states.insert(mc::hash(cfg.type_name + k));
        if (rep.counters.count("shards_abandoned") || rep.counters.count("lost_shard_prefixes"))
            exhaustive = false;
        total.merge(rep);
        return fresh;
    }

    static void cap_size_of(const std::string& key, size_t& c, size_t& s)
    {
        c = strtoul(key.c_str(), nullptr, 10);
        auto p = key.find(':');
        s = strtoul(key.c_str() + p + 1, nullptr, 10);
    }

    void run()
    {
        // ---- roots
        std::vector<std::string> frontier;
        {
            auto rs = roots();
            auto sh = sharded("roots");
            sh.walk = [&](mc::Ctx& ctx) {
                for (auto& r : rs)
                {
                    long idx = ctx.next;
                    ctx.each([&] { return mc::Desc{ mc::J().s("type", cfg.type_name).s("recipe", "").s("op", r.str()).str(), r.code }; },
                             [&](mc::Report& rep) {
                                 // a root is "apply constructor on an empty world"; reuse step() through an empty helper recipe
                                 Outcome o;
                                 {
                                     World<T> w;
                                     w.nvalues = cfg.nvalues;
                                     w.out = &o.findings;
                                     w.apply(r);
                                     w.observe(0, r.str());
                                     if (o.findings.empty() && w.fv[0])
                                     {
                                         o.succ.push_back({ w.key(0), recipe_str({ r }, 0) });
                                         o.asucc.push_back({ w.akey(0), recipe_str({ r }, 0) });
                                     }
                                     o.from_key = "<nothing>";
                                 }
                                 if (!R().live.empty())
                                 {
                                     o.findings.push_back({ "C06", "element-leaked", "after constructor " + r.str() });
                                     R().live.clear();
                                 }
                                 for (auto& e : R().errors)
                                     o.findings.push_back({ "C06", "element-lifetime-error", e + " in constructor " + r.str() });
                                 R().errors.clear();
                                 record(o, "", r, "", 0, rep, idx);
                             });
                }
            };
            auto rep = sh.run();
            frontier = absorb(rep);
        }
        // ---- BFS over single-vector operations, alternating with the two-vector phase, to a fixpoint
        std::set<std::string> paired; // abstract keys already used in the two-vector phase
        int level = 0;
        double t0 = mc::now_s();
        for (;;)
        {
            while (!frontier.empty() && level < cfg.max_levels)
            {
                level++;
                auto sh = sharded("bfs" + std::to_string(level));
                sh.walk = [&](mc::Ctx& ctx) {
                    for (auto& k : frontier)
                    {
                        size_t c, s;
                        cap_size_of(k, c, s);
                        const std::string& recipe = states[k];
                        for (auto& op : ops_for(c, s))
                        {
                            long idx = ctx.next;
                            ctx.each([&] { return mc::Desc{ mc::J().s("type", cfg.type_name).n("nvalues", cfg.nvalues).s("recipe", recipe).s("recipe_b", "").s("op", op.str()).n("fault_at", 0).str(), op.code }; },
                                     [&](mc::Report& rep) {
                                         auto o = step(recipe, op);
                                         record(o, recipe, op, "", 0, rep, idx);
                                         if (idx % 2003 == 0)
                                             rep.sample(mc::J().s("type", cfg.type_name).s("state", k).s("recipe", recipe).s("op", op.str()).str());
                                     });
                        }
                    }
                };
                auto rep = sh.run();
                frontier = absorb(rep);
                total.set_max("max_bfs_levels", level);
                if ((args.deadline_s > 0 && mc::now_s() - started > args.deadline_s) || states.size() > cfg.max_states)
                {
                    exhaustive = false;
                    total.count(states.size() > cfg.max_states ? "state_cap_hit" : "deadline_hit");
                    total.count("capped");
                    frontier.clear();
                    level = cfg.max_levels; // leave both loops
                }
            }
            if (!frontier.empty() || !exhaustive)
            {
                exhaustive = false;
                total.count("capped");
                break;
            }
            if (!cfg.two_vector)
                break;
            // two-vector phase: all pairs of representatives where at least one side is new
            std::vector<std::string> all, fresh;
            for (auto& r : reps)
            {
                all.push_back(r.first);
                if (!paired.count(r.first))
                    fresh.push_back(r.first);
            }
            if (fresh.empty())
                break;
            auto sh = sharded("pairs" + std::to_string(level));
            const std::set<std::string> done_before = paired; // the walk runs later, inside the workers
            sh.walk = [&](mc::Ctx& ctx) {
                for (auto& a : all)
                    for (auto& b : all)
                    {
                        if (done_before.count(a) && done_before.count(b))
                            continue;
                        for (const char* code : { "CA", "MA" })
                        {
                            if (std::string(code) == "CA" && !std::is_copy_constructible<T>::value)
                                continue;
                            Op op;
                            op.code = code;
                            long idx = ctx.next;
                            ctx.each([&] { return mc::Desc{ mc::J().s("type", cfg.type_name).n("nvalues", cfg.nvalues).s("recipe", reps[a]).s("recipe_b", reps[b]).s("op", op.str()).n("fault_at", 0).str(), op.code }; },
                                     [&](mc::Report& rep) {
                                         auto o = step(reps[a], op, reps[b]);
                                         record(o, reps[a], op, reps[b], 0, rep, idx);
                                         rep.count("pair_transitions");
                                     });
                        }
                    }
            };
            for (auto& f : fresh)
                paired.insert(f);
            auto rep = sh.run();
            frontier = absorb(rep);
        }
        total.counters["concrete_states"] = states.size();
        total.counters["abstract_states"] = reps.size();
        // ---- fault enumeration: every (state, operation, throw position)
        if (cfg.faults && (args.deadline_s <= 0 || mc::now_s() - started < args.deadline_s))
        {
            std::vector<std::string> keys;
            for (auto& s : states)
                keys.push_back(s.first);
            auto sh = sharded("faults");
            sh.walk = [&](mc::Ctx& ctx) {
                auto one = [&](const std::string& recipe, const Op& op, const std::string& recipe_b) {
                    long idx = ctx.next;
                    ctx.each([&] { return mc::Desc{ mc::J().s("type", cfg.type_name).n("nvalues", cfg.nvalues).s("recipe", recipe).s("recipe_b", recipe_b).s("op", op.str()).n("fault_at", -1).str(), op.code + "+fault" }; },
                             [&](mc::Report& rep) {
                                 auto base = step(recipe, op, recipe_b);
                                 long n = base.element_ops;
                                 rep.count("fault_positions", n);
                                 for (long k = 1; k <= n; k++)
                                 {
                                     auto o = step(recipe, op, recipe_b, k);
                                     record(o, recipe, op, recipe_b, k, rep, idx);
                                     if (o.fault_escaped)
                                         rep.count("faults_propagated");
                                 }
                             });
                };
                for (auto& k : keys)
                {
                    size_t c, s;
                    cap_size_of(k, c, s);
                    for (auto& op : ops_for(c, s))
                    {
                        if (op.code == "AT" || op.code == "ATC" || op.code == "GET" || op.code == "WR")
                            continue;
                        one(states[k], op, "");
                    }
                }
                // constructors
                for (auto& r : roots())
                {
                    long idx = ctx.next;
                    ctx.each([&] { return mc::Desc{ mc::J().s("type", cfg.type_name).s("recipe", "").s("op", r.str()).n("fault_at", -1).str(), r.code + "+fault" }; },
                             [&](mc::Report& rep) {
                                 long n = 0;
                                 for (long k = 0; k <= n; k++)
                                 {
                                     Outcome o;
                                     {
                                         World<T> w;
                                         w.nvalues = cfg.nvalues;
                                         w.out = &o.findings;
                                         w.fault_mode = k > 0;
                                         w.fault_at = k;
                                         w.apply(r);
                                         if (k == 0)
                                             n = w.element_ops;
                                         w.observe(0, r.str());
                                     }
                                     if (!R().live.empty())
                                     {
                                         o.findings.push_back({ "C06", "element-leaked-after-element-exception", "constructor " + r.str() + " with element operation #" + std::to_string(k) + " throwing" });
                                         R().live.clear();
                                     }
                                     for (auto& e : R().errors)
                                         o.findings.push_back({ "C06", "element-lifetime-error-after-element-exception", e + " constructor " + r.str() });
                                     R().errors.clear();
                                     o.from_key = "<nothing>";
                                     if (k > 0)
                                         record(o, "", r, "", k, rep, idx);
                                 }
                                 rep.count("fault_positions", n);
                             });
                }
                // two-vector operations on pairs of representatives
                if (cfg.two_vector)
                    for (auto& a : reps)
                        for (auto& b : reps)
                            for (const char* code : { "CA", "MA" })
                            {
                                if (std::string(code) == "CA" && !std::is_copy_constructible<T>::value)
                                    continue;
                                Op op;
                                op.code = code;
                                one(a.second, op, b.second);
                            }
            };
            auto rep = sh.run();
            absorb(rep);
        }
    }

    // sizes: one long deterministic history at capacities far above the explored ones (beyond small buffers, narrow
    // index types, chunked growth) - fill, overflow, erase / emplace at the front, in the middle and at the end, range
    // append and insert, pop to empty, underflow, copy / move - judged after every step by the same oracle.  A finding is
    // reported with the recipe that reproduces it through the ordinary replay.
    void long_traces(mc::Report& rep)
    {
        for (int cap : { 17, 64, 300 })
        {
            std::vector<Finding> findings;
            std::vector<Op> done;
            long steps = 0;
            {
                World<T> w;
                w.nvalues = cfg.nvalues;
                w.out = &findings;
                int val = 0;
                auto value = [&] { return 1 + (val++ % cfg.nvalues); };
                auto apply = [&](const std::string& code, int a = 0, int b = 0) {
                    if (!findings.empty())
                        return;
                    Op o;
                    o.slot = 0;
                    o.code = code;
                    o.a = a;
                    o.b = b;
                    bool ok = w.apply(o);
                    w.observe(0, "long history at capacity " + std::to_string(cap) + ", step " + std::to_string(steps) + ": " + o.str());
                    steps++;
                    if (findings.empty() && ok)
                        done.push_back(o);
                    else if (!findings.empty())
                        findings.back().detail += " [recipe: " + recipe_str(done, 0) + " then " + o.str() + "]";
                };
                apply("NEW", cap);
                const bool copyable = std::is_copy_constructible<T>::value;
                for (int i = 0; i < cap; i++)
                {
                    // around the fill levels where an implementation may switch paths or grow its storage the appended value is
                    // one of the container's own elements (first / last), otherwise a fresh value
                    bool boundary = false;
                    for (int b : { 16, 32, 64, 128, 256 })
                        boundary = boundary || (i >= b - 1 && i <= b + 1);
                    if (boundary && copyable && i > 0)
                        apply(i % 3 == 0 ? "EBS" : i % 3 == 1 ? "PBS" : "ICS", i % 2 ? 0 : i - 1);
                    else if (i % 7 == 6)
                        apply("EB0", value());
                    else
                        apply(i % 3 == 0 || !copyable ? "EB" : i % 3 == 1 ? "PB" : "IM", value());
                }
                apply("EB", value()); // full: must throw and change nothing
                apply("EM", cap / 2, value());
                for (int i = 0; i < cap / 4; i++)
                {
                    apply("ER", 0);
                    apply("ER", (cap - 2 * i) / 2);
                    apply("POP");
                }
                for (int i = 0; i < cap / 4; i++)
                {
                    apply("EM", 0, value());
                    apply("EM", cap / 3, value());
                    if (copyable)
                        apply("EMS", 1, cap / 5);
                    else
                        apply("EM", 1, value());
                }
                apply("AT", cap);
                apply("AT", cap - 1);
                apply("GET", 0);
                apply("ER", cap); // not below size: must throw
                for (int i = 0; i < cap / 2; i++)
                    apply("POP");
                apply("PBR", cap / 4);
                apply("IR", cap / 2 + cap / 4, cap / 8);
                apply("PBRI", cap / 8);
                apply("PBR", cap); // does not fit
                for (int i = 0; i < cap + 2; i++)
                    apply("POP"); // the last ones on an empty container: must throw
                for (int i = 0; i < 5; i++)
                    apply("EB", value());
            }
            if (!R().live.empty())
            {
                findings.push_back({ "C06", "element-leaked", std::to_string(R().live.size()) + " element object(s) still alive after the long history at capacity " + std::to_string(cap) });
                R().live.clear();
            }
            for (auto& e : R().errors)
                findings.push_back({ "C06", "element-lifetime-error", e + " (long history at capacity " + std::to_string(cap) + ")" });
            R().errors.clear();
            rep.count("executions", steps);
            rep.count("long_history_steps", steps);
            for (auto& f : findings)
            {
                if (f.owner != cfg.owner && f.owner != "harness")
                {
                    rep.count("not_judged_here:" + f.owner + ":" + f.clause);
                    continue;
                }
                Op last = done.empty() ? Op() : done.back();
                std::vector<Op> pre(done.begin(), done.empty() ? done.end() : done.end());
                rep.violation(f.clause, cfg.owner + ":" + f.clause + ":" + cfg.type_name + ":long-history", mc::J().s("type", cfg.type_name).n("nvalues", cfg.nvalues).s("long_history", std::to_string(cap)).str(), f.detail.substr(0, 1500), 0);
            }
        }
    }

    // replay of one witness
    int replay(const js::Value& w)
    {
        if (w.has("long_history"))
        {
            mc::Report r;
            long_traces(r);
            for (auto& v : r.violations)
                printf("  FAILED clause: %s\n    %s\n", v.second.clause.c_str(), v.second.detail.c_str());
            if (r.violations.empty())
                printf("replay %s (%s) long histories: conform\n", cfg.owner.c_str(), cfg.type_name.c_str());
            return r.violations.empty() ? 0 : 1;
        }
        Op op = Op::parse("0:" + w.s("op").substr(w.s("op").find(':') + 1));
        long fa = w.n("fault_at");
        std::string recipe = w.s("recipe"), rb = w.s("recipe_b");
        printf("replay %s (%s): recipe '%s'%s then %s%s\n", cfg.owner.c_str(), cfg.type_name.c_str(), recipe.c_str(),
               rb.empty() ? "" : (" and '" + rb + "'").c_str(), op.str().c_str(), fa > 0 ? (" with element operation #" + std::to_string(fa) + " throwing").c_str() : "");
        std::vector<Finding> fs;
        if (recipe.empty())
        {
            World<T> wd;
            wd.nvalues = cfg.nvalues;
            wd.out = &fs;
            wd.fault_mode = fa > 0;
            wd.fault_at = fa > 0 ? fa : 0;
            wd.apply(op);
            wd.observe(0, op.str());
        }
        else if (fa == -1)
        {
            auto base = step(recipe, op, rb);
            fs = base.findings;
            for (long k = 1; k <= base.element_ops; k++)
            {
                auto o = step(recipe, op, rb, k);
                fs.insert(fs.end(), o.findings.begin(), o.findings.end());
            }
        }
        else
        {
            auto o = step(recipe, op, rb, fa);
            fs = o.findings;
        }
        if (!R().live.empty())
            fs.push_back({ "C06", "element-leaked", std::to_string(R().live.size()) + " element(s) alive at the end" });
        for (auto& e : R().errors)
            fs.push_back({ "C06", "element-lifetime-error", e });
        int bad = 0;
        for (auto& f : fs)
        {
            bool mine = f.owner == cfg.owner || f.owner == "harness";
            printf("  %s clause %s:%s\n    %s\n", mine ? "FAILED" : "(other property)", f.owner.c_str(), f.clause.c_str(), f.detail.c_str());
            bad += mine;
        }
        if (!bad)
            printf("  no clause of %s fails on this case\n", cfg.owner.c_str());
        return bad ? 1 : 0;
    }
};

} // namespace fv

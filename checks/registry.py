"""Per-check build and run recipes used by bin/check.

Each entry: src (harness sources, relative to /verif), nitro (compiled parts of nitro the harness links),
variants (name -> extra flags), runs(tier) -> list of driver invocations, deadline_s (wall budget handed to
the driver; when it is hit the driver stops taking cases and reports exhaustive:false).
"""

RUN_ENV = {
    "asan": {"ASAN_OPTIONS": "abort_on_error=1:detect_leaks=0:allocator_may_return_null=1:handle_abort=0",
             "UBSAN_OPTIONS": "print_stacktrace=0:halt_on_error=1"},
    "tsan": {"TSAN_OPTIONS": "halt_on_error=0:report_signal_unsafe=0:exitcode=0"},
}

PLAIN_ASAN = {"plain": {}, "asan": {}}


def both(tier):
    return [{"variant": "plain"}, {"variant": "asan"}]


def plain_only(tier):
    return [{"variant": "plain"}]


PARSER_ASSUMPTIONS = [
    "reference model ref/refparse.hpp (DESIGN.md section 5) is the specification; it is written from the property statements only",
    "bounded: argument-vector length, declaration grid and token alphabet as reported in coverage.runs[*].counters",
    "declared names never start with 'no-' and never contain '=' (the statements are silent about them)",
    "ASan+UBSan build explores the same enumeration one token shorter",
]

CHECKS = {
    "C01": dict(src=["checks/C01.cpp"], nitro=["options", "env"], variants=PLAIN_ASAN, runs=both,
                deadline_s={"quick": 240, "thorough": 1500}, assumptions=PARSER_ASSUMPTIONS,
                explanation="every declaration of a 540-grid x every argument vector up to the bound over the declaration's "
                            "relational token alphabet, real parser vs reference model; states/transitions are those of the "
                            "reference automaton visited, every execution runs the implementation"),
}

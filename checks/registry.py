"""Per-check build and run recipes used by bin/check.

Each entry: src (harness sources, relative to /verif), nitro (compiled parts of nitro the harness links),
variants (name -> extra flags), runs(tier) -> list of driver invocations, deadline_s (wall budget handed to
the driver; when it is hit the driver stops taking cases and reports exhaustive:false).
"""

RUN_ENV = {
    "asan": {"ASAN_OPTIONS": "abort_on_error=1:detect_leaks=0:allocator_may_return_null=1:handle_abort=0",
             "UBSAN_OPTIONS": "print_stacktrace=0:halt_on_error=1"},
    "tsan": {"TSAN_OPTIONS": "halt_on_error=0:report_signal_unsafe=0:exitcode=0"},
}

PLAIN_ASAN = {"plain": {}, "asan": {}}


def both(tier):
    return [{"variant": "plain"}, {"variant": "asan"}]


def plain_only(tier):
    return [{"variant": "plain"}]


PARSER_ASSUMPTIONS = [
    "reference model ref/refparse.hpp (DESIGN.md section 5) is the specification; it is written from the property statements only",
    "bounded: argument-vector length, declaration grid and token alphabet as reported in coverage.runs[*].counters",
    "declared names never start with 'no-' and never contain '=' (the statements are silent about them)",
    "ASan+UBSan build explores the same enumeration one token shorter",
]

def parser_check(cid, explanation, extra=(), quick=300, thorough=1800):
    return dict(src=["checks/%s.cpp" % cid], nitro=["options", "env"], variants=PLAIN_ASAN, runs=both,
                deadline_s={"quick": quick, "thorough": thorough}, assumptions=PARSER_ASSUMPTIONS + list(extra),
                explanation=explanation)


def build_vp_libs(builder, bins):
    """C19: two tiny shared libraries (libvp_a.so returns 1, libvp_b.so returns 2) next to the driver."""
    import os, subprocess
    d = os.path.join(builder.dir(), "vp_libs")
    os.makedirs(d, exist_ok=True)
    src = os.path.join(os.path.dirname(os.path.abspath(__file__)), "aux", "vp_lib.c")
    for name, ret in (("a", 1), ("b", 2)):
        out = os.path.join(d, "libvp_%s.so" % name)
        if not os.path.exists(out):
            r = subprocess.run(["gcc", "-shared", "-fPIC", "-O1", "-DVP_RET=%d" % ret, src, "-o", out + ".tmp"],
                               stdout=subprocess.PIPE, stderr=subprocess.STDOUT, text=True)
            if r.returncode:
                raise RuntimeError("building test library failed: " + r.stdout)
            os.replace(out + ".tmp", out)
    return {"VP_LIBDIR": d}


SEV_NAMES = ["trace", "debug", "info", "warn", "error", "fatal"]
LOG_VARIANTS = {}
for _i, _n in enumerate(SEV_NAMES):
    LOG_VARIANTS["plain+min%d" % _i] = {"flags": ["-DNITRO_LOG_MIN_SEVERITY=%s" % _n, "-DVP_MIN=%d" % _i]}
# the minimum defined by the program itself after other nitro log headers were included (instead of -D on the command line)
LOG_VARIANTS["plain+late3"] = {"flags": ["-DVP_LATE_DEFINE=warn", "-DVP_MIN=3"]}
for _i in (0, 3):
    LOG_VARIANTS["asan+min%d" % _i] = {"flags": ["-DNITRO_LOG_MIN_SEVERITY=%s" % SEV_NAMES[_i], "-DVP_MIN=%d" % _i]}


def log_runs(tier):
    return [{"variant": v} for v in LOG_VARIANTS]


LOG_ASSUMPTIONS = [
    "the harness is compiled once per compile-time minimum (6 binaries + 2 ASan binaries); the type-level half of the property is a static_assert in every instantiation",
    "form A (one expression) is produced by a recursion in which every insertion consumes the previous temporary and yields a new one, exactly the overloads a literal chain uses",
    "recording formatter / recording sequence sink are template parameters; timestamps are set but never compared",
    "custom record attributes, MPI/OpenMP/syslog/logfile sinks are not driven",
]

CHECKS = {
    "C01": dict(src=["checks/C01.cpp"], nitro=["options", "env"], variants=PLAIN_ASAN, runs=both,
                deadline_s={"quick": 240, "thorough": 1500}, assumptions=PARSER_ASSUMPTIONS,
                explanation="every declaration of a 540-grid x every argument vector up to the bound over the declaration's "
                            "relational token alphabet, real parser vs reference model; states/transitions are those of the "
                            "reference automaton visited, every execution runs the implementation"),
    "C04": dict(src=["checks/C04.cpp"], nitro=["options", "env"], variants=PLAIN_ASAN, runs=both,
                deadline_s={"quick": 300, "thorough": 1800}, assumptions=PARSER_ASSUMPTIONS + [
                    "totality is judged per case by fork isolation: signal, abort, std::terminate, sanitizer report and a per-case timer (10 s, re-run alone with 100 s before calling it a hang)",
                    "multi-option environment values with leading/trailing ';' are not generated"],
                explanation="12 declarations x every argument vector up to the bound over a 48-token byte-level alphabet x environments "
                            "+ long-token stress cases; oracle = totality + exact accept/reject boundary of the reference automaton"),
    "C12": parser_check("C12", "accepted count {0,1,2,3,unlimited} x greedy x every vector up to the bound over a 14-token alphabet "
                               "(values, `--`, malformed dash tokens, declared/undeclared spellings); positional list, accept/reject and "
                               "every index in [-m-1,m] against the reference",
                        ["out-of-range indices -m-1 and m: only memory safety is judged (ASan build)",
                         "a free-running ThreadSanitizer pass parses with two independent parser objects in two threads (a detector for state "
                         "shared between parser objects, not part of the exhaustive claim)"]),
    "C11": parser_check("C11", "48 toggle declarations x every vector up to the bound over a 14-token occurrence alphabet (long, short, "
                               "repeated letters, bundles, --no- forms in all orders); environment words through parse(); closed-world "
                               "check of the truthy/falsy vocabulary over every string up to the bound, all case variants, single edits"),
    "C03": parser_check("C03", "3 kinds x command-line spellings x environment {unbound, unset, empty, 17 byte-level values incl. dash-leading, "
                               "'=' and ';'} x default x optional/required, singly and as ordered pairs in one parser; value, provided flag "
                               "and accept/reject against the reference",
                        ["multi-option environment values with a leading or trailing ';' are not generated (statement is silent)"]),
    "C02": parser_check("C02", "every assignment of <= k items over a byte-level value alphabet x every rendering (4 option forms, long/short "
                               "toggles, all bundlings of adjacent short toggles, every item order, every placement of `--`), with and without "
                               "short names; the parse result must equal the assignment the generator rendered; typed access for decimal texts",
                        ["the expectation is the generator's assignment; the reference automaton is cross-checked against it on every case"]),
    "C14": parser_check("C14", "3 declarations x every sequence of <= h (argument vector, environment) events on ONE parser object, "
                               "each outcome compared with a freshly built identical parser (differential oracle); BFS with "
                               "de-duplication on the option objects' publicly observable state to a fixpoint / depth bound",
                        ["BFS de-duplication keys on the state visible through the public API (values, counts, has_non_default); hidden state "
                         "outside it is only covered by the un-deduplicated depth-h enumeration"]),
    "C15": dict(src=["checks/C15.cpp"], nitro=["options", "env"], variants=PLAIN_ASAN, runs=both,
                deadline_s={"quick": 300, "thorough": 1500},
                assumptions=["about text and group descriptions are kept short: they are written verbatim (not wrapped) and the statement's "
                             "80-column clause is judged only on the synopsis and the option section",
                             "line width uses the lenient reading: a longer line must contain a word (or synopsis unit) that cannot fit the column",
                             "a non-reversible toggle may or may not print its default"],
                explanation="declarations (single item over the full attribute product; 2-3 items over groups, creation orders, name "
                            "permutations) x 7 target streams; differential oracle across streams + structural parse-back of the text"),
    "C13": parser_check("C13", "27 declaration events (declare 3 kinds x 2 names x parser|g1|g2, short_name with valid/invalid/changed letters, "
                               "MOVE of the heap-allocated parser) - every history up to depth d, then BFS to a fixpoint de-duplicated on the "
                               "reference state; step-by-step agreement with the reference map name -> (kind, group, short), identical-object "
                               "check for re-declarations, and probe parses of every spelling at every state; ASan watches the group's "
                               "back-reference after MOVE",
                        ["BFS de-duplication assumes behaviour depends only on the reference state and the moved flag (declaration order only affects the usage text)"]),
    "C06": dict(src=["checks/C06.cpp"], nitro=[], variants=PLAIN_ASAN, runs=both, deadline_s={"quick": 300, "thorough": 1500},
                assumptions=["states are keyed by capacity, size and the raw contents of all capacity slots read through data(); the induction "
                             "'every finite operation sequence' needs behaviour to depend only on that key",
                             "copy/move assignment is explored over pairs of abstract-state representatives (one concrete representative per visible sequence)",
                             "positioned range insert and emplace beyond the end: only safety and invariants are judged; moved-from containers: "
                             "valid-but-unspecified (size <= capacity, usable, accounted)",
                             "after an injected element exception only the basic guarantee is judged (no leak, no double destroy, size <= capacity, no unfilled slot visible)",
                             "memory safety as far as ASan/UBSan can see (heap red zones); LeakSanitizer is replaced by the exact element live-set"],
                explanation="explicit-state BFS to a fixpoint on the real fixed_vector for a copyable and a move-only instrumented element type, "
                            "+ fault enumeration at every (state, operation, throw position)"),
    "C07": dict(src=["checks/C07.cpp"], nitro=[], variants=PLAIN_ASAN, runs=both, deadline_s={"quick": 300, "thorough": 1500},
                assumptions=["reference = std::vector bounded by the capacity; states keyed as in C06",
                             "after whole-container assignment the capacity may be the source's or (if the contents fit) the old one",
                             "positioned range insert: contents not judged (not part of the statement)"],
                explanation="explicit-state BFS to a fixpoint on the real fixed_vector against a bounded std::vector, full observation "
                            "(size, [], at, forward/reverse iteration, data, front/back) after every transition"),
    "C17": dict(src=["checks/C17.cpp"], nitro=[], variants=PLAIN_ASAN, runs=both, deadline_s={"quick": 300, "thorough": 1500},
                assumptions=["replace_all with an empty pattern: only termination is judged (normal return or a library exception)",
                             "termination is decided by a per-case timer (3 s, re-run alone with 30 s) and a 2 GiB address-space limit",
                             "alphabet {a, b, blank}; longer strings and other bytes are not explored"],
                explanation="every string up to the bound x every separator / pattern / replacement of length <= 3, every small element list x "
                            "infix, real functions vs naive single-pass references and the algebraic laws"),
    "C18": dict(src=["checks/C18.cpp"], nitro=[], variants=PLAIN_ASAN, runs=both, deadline_s={"quick": 300, "thorough": 900},
                assumptions=["canonical state = which payload type each slot / vector element owns (payload ids do not influence behaviour)",
                             "self move-assignment is not exercised (unspecified); exact payload accounting replaces LeakSanitizer",
                             "pool sizes: 3 quaint_ptr slots + vector of <= 3, 2 optionals over values {1,2}"],
                explanation="explicit-state BFS to a fixpoint over operation histories on real quaint_ptr / optional objects against an "
                            "ownership table / std::optional reference"),
    "C20": dict(src=["checks/C20.cpp"], nitro=[], variants=PLAIN_ASAN, runs=both, deadline_s={"quick": 300, "thorough": 600},
                assumptions=["lengths 0..4; element type with a live-set so that a destroyed temporary is visible (plus ASan)",
                             "for built-in arrays reverse() yields reference wrappers; aliasing is judged on the wrapped element"],
                explanation="container kinds x lengths x value categories x adaptors x iteration styles, each executed on the real adaptors; "
                            "order, indices, aliasing (address and write-through) and element lifetime are judged"),
    "C08": dict(src=["checks/C08.cpp"], nitro=[], variants=PLAIN_ASAN, runs=both, deadline_s={"quick": 300, "thorough": 1500},
                assumptions=["narrow-character formats only (wide formats are outside the quantifier as written)",
                             "reference: one left-to-right scan for '{}', argument text = fresh ostringstream << argument, never rescanned",
                             "for more than 3 placeholders only the first three arguments vary"],
                explanation="every format string over {'{','}','a'} up to the bound x argument counts 0..k+1 x argument texts containing braces and "
                            "placeholders x both supply paths x three read paths; typed arguments/manipulators; exception messages alone and "
                            "after every pair of earlier exceptions"),
    "C16": dict(src=["checks/C16.cpp"], nitro=[], variants=PLAIN_ASAN, runs=both, deadline_s={"quick": 300, "thorough": 900},
                assumptions=["NaN members are excluded (equality is not reflexive there)",
                             "'rare collisions' is judged on the exhaustive grid as: not all pairs differing in one member collide, and at most 5 % do",
                             "grids are small (3-5 values per member); nothing is said about the hash's distribution beyond them"],
                explanation="exhaustive grids of member tuples; all ordered pairs, all triples, all in-place member changes after hashing; hash "
                            "containers keyed by the types"),
    "C19": dict(src=["checks/C19.cpp"], nitro=["env"], variants=PLAIN_ASAN, runs=both, deadline_s={"quick": 300, "thorough": 900},
                libs=["-ldl", "-rdynamic"], prebuild=build_vp_libs,
                assumptions=["dlopen/dlclose are observed by interposition in the harness executable (the calls come from nitro's inline headers) "
                             "and the mapping state is asked from the loader with RTLD_NOLOAD; behaviour is that of this image's glibc",
                             "environment values: byte strings of length <= 3 over 6 bytes (no NUL); the harness owns the process environment",
                             "a moved-from library / symbol object is destroyed right after the move (using it is not defined)"],
                explanation="env: exhaustive (name, value, default, overload) grid on the real get(); dl: explicit-state BFS to a fixpoint over "
                            "open/load/copy/assign/move/call/destroy histories against a per-dlopen reference count"),
    "C05": dict(src=["checks/C05.cpp"], nitro=[], variants=LOG_VARIANTS, runs=log_runs, deadline_s={"quick": 300, "thorough": 900},
                replay_variant="plain+min0", assumptions=LOG_ASSUMPTIONS,
                explanation="generated log programs executed on the real front end with recording formatter and sequence sink, event-by-event "
                            "comparison with a reference interpreter of severity >= minimum and filter(expression, thresholds)"),
    "C10": dict(src=["checks/C10.cpp"], nitro=[], variants=LOG_VARIANTS, runs=log_runs, deadline_s={"quick": 300, "thorough": 900},
                replay_variant="plain+min0", assumptions=LOG_ASSUMPTIONS,
                explanation="same generated programs as C05; judged: callables never run for disabled statements, exactly once and at their "
                            "position for emitted ones; null stream type below the compile-time minimum (static_assert)"),
    "C09": dict(src=["checks/C09.cpp", "engine/sched.c"], nitro=[],
                variants={"plain": {"no_sanitize_src": ["engine/sched.c"]},
                          "tsan": {"flags": ["-DVP_TSAN", "-DVP_NO_INTERPOSE"], "no_sanitize_src": ["engine/sched.c"]}},
                runs=lambda tier: [{"variant": "plain"}, {"variant": "tsan"}], libs=["-ldl"],
                deadline_s={"quick": 240, "thorough": 1500},
                assumptions=["sequential consistency between scheduling points; weak memory reorderings are not modelled",
                             "scheduling points: pthread_mutex_lock/unlock/trylock (link-time interposition, mutexes modelled by an owner table), every byte "
                             "and three phases of every flush of the harness stream buffer, thread start/exit",
                             "unsynchronised accesses between scheduling points are only caught by the separate free-running ThreadSanitizer pass, "
                             "which observes the schedules that happen to run (a detector, not the deciding exploration)",
                             "2-4 threads, 1-2 records each; preemption bound as reported per configuration",
                             "the unbounded exploration prunes by a digest of the whole program state; it is exhaustive provided a thread's local state "
                             "is a function of its progress and of the values it observed (try-lock results, buffer positions and contents are folded "
                             "into the digest), which holds for the deterministic thread bodies used"],
                explanation="stateless preemption-bounded exploration (iterative context bounding, CHESS style) of real threads running the real "
                            "thread-safe sinks under a cooperative scheduler; every complete schedule is judged on the bytes that reached the "
                            "non-thread-safe stream buffer"),
}


# C12 additionally runs a ThreadSanitizer build (two independent parsers in two threads)
CHECKS["C12"]["variants"] = {"plain": {}, "asan": {}, "tsan": {"flags": ["-DVP_TSAN"]}}
CHECKS["C12"]["runs"] = lambda tier: [{"variant": "plain"}, {"variant": "asan"}, {"variant": "tsan"}]

// fixed_vector over trivially copyable element types of several widths (8, 128, 300 bytes), at capacities and fill
// levels around the thresholds an implementation may have (bulk-move fast paths, growth steps, small buffers): every
// single-element operation at the front / second / middle / last / end position, with a fresh value and with an
// argument that aliases an element of the same container (first, middle, last), from every fill level 0..capacity.
// Reference: std::vector.  The instrumented element types of fv.hpp are not trivially copyable and not nothrow
// constructible, so code paths selected by those traits are reached only here.
#pragma once
#include "../engine/mc.hpp"

#include <nitro/lang/fixed_vector.hpp>

#include <cstring>
#include <stdexcept>
#include <string>
#include <vector>

namespace fvpod
{
template <size_t W>
struct Pod
{
    long id;
    char pad[W - sizeof(long)];
    bool operator==(const Pod& o) const
    {
        return id == o.id;
    }
};
template <size_t W>
inline Pod<W> mk(long id)
{
    Pod<W> p;
    std::memset(&p, 0, sizeof p);
    p.id = id;
    return p;
}

struct Problem
{
    std::string clause, detail;
};

template <size_t W>
void cases(const std::string& owner, mc::Report& rep, bool small_only)
{
    using P = Pod<W>;
    using FV = nitro::lang::fixed_vector<P>;
    static_assert(std::is_trivially_copyable<P>::value, "the element type of this phase is trivially copyable");
    std::vector<size_t> caps = { 1, 2, 3, 17, 65, 66, 130, 300 };
    if (small_only)
        caps = { 1, 2, 3, 17, 65 };
    const char* ops[] = { "emplace(pos, fresh)", "emplace(pos, v[j])", "erase(pos)", "push_back(v[j])", "insert(v[j])", "emplace_back(v[j])", "emplace_back(fresh)", "pop_back" };
    for (size_t cap : caps)
        for (size_t fill = 0; fill <= cap; fill++)
        {
            // only fill levels around powers of two and the ends for the large capacities
            if (cap > 17)
            {
                bool near = fill <= 2 || fill + 2 >= cap;
                for (size_t b : { 16u, 32u, 64u, 128u, 256u })
                    near = near || (fill + 1 >= b && fill <= b + 1);
                if (!near)
                    continue;
            }
            std::vector<size_t> poss = { 0, 1, fill / 2, fill ? fill - 1 : 0, fill };
            std::vector<size_t> js = { 0, fill / 2, fill ? fill - 1 : 0 };
            for (int op = 0; op < 8; op++)
                for (size_t pos : poss)
                    for (size_t j : js)
                    {
                        bool uses_pos = op <= 2, uses_j = op == 1 || op == 3 || op == 4 || op == 5;
                        if (!uses_pos && pos != poss[0])
                            continue;
                        if (!uses_j && j != js[0])
                            continue;
                        if (uses_j && fill == 0)
                            continue;
                        if (pos > fill || (op == 2 && pos >= fill) || (op == 7 && fill == 0))
                            continue;
                        FV v(cap);
                        std::vector<P> ref;
                        for (size_t i = 0; i < fill; i++)
                        {
                            v.emplace_back(mk<W>(100 + static_cast<long>(i)));
                            ref.push_back(mk<W>(100 + static_cast<long>(i)));
                        }
                        bool full = fill == cap, threw = false;
                        P fresh = mk<W>(7);
                        try
                        {
                            switch (op)
                            {
                            case 0: v.emplace(v.begin() + pos, fresh); break;
                            case 1: v.emplace(v.begin() + pos, v[j]); break;
                            case 2: v.erase(v.begin() + pos); break;
                            case 3: v.push_back(v[j]); break;
                            case 4: v.insert(static_cast<const P&>(v[j])); break;
                            case 5: v.emplace_back(v[j]); break;
                            case 6: v.emplace_back(fresh); break;
                            default: v.pop_back(); break;
                            }
                        }
                        catch (std::exception&)
                        {
                            threw = true;
                        }
                        bool adds = op != 2 && op != 7;
                        if (!(adds && full))
                        {
                            switch (op)
                            {
                            case 0: ref.insert(ref.begin() + pos, fresh); break;
                            case 1: { P x = ref[j]; ref.insert(ref.begin() + pos, x); break; }
                            case 2: ref.erase(ref.begin() + pos); break;
                            case 3:
                            case 4:
                            case 5: { P x = ref[j]; ref.push_back(x); break; }
                            case 6: ref.push_back(fresh); break;
                            default: ref.pop_back(); break;
                            }
                        }
                        rep.count("executions");
                        rep.count("pod_cases");
                        std::string what = "fixed_vector<" + std::to_string(W) + "-byte POD>, capacity " + std::to_string(cap) + ", " + std::to_string(fill) + " elements, " + ops[op] +
                                           (uses_pos ? " pos=" + std::to_string(pos) : "") + (uses_j ? " j=" + std::to_string(j) : "");
                        std::string clause, detail;
                        if (adds && full ? !threw : threw)
                        {
                            clause = adds && full ? "unsatisfiable-operation-did-not-throw" : "operation-threw-although-it-fits";
                            detail = what;
                        }
                        else if (v.size() != ref.size())
                        {
                            clause = "size-differs-from-reference";
                            detail = what + ": size " + std::to_string(v.size()) + " expected " + std::to_string(ref.size());
                        }
                        else
                            for (size_t i = 0; i < ref.size(); i++)
                                if (!(v[i] == ref[i]))
                                {
                                    clause = owner == "C06" ? "element-exposed-that-the-caller-did-not-put-there" : "contents-differ-from-reference";
                                    detail = what + ": index " + std::to_string(i) + " holds " + std::to_string(v[i].id) + " expected " + std::to_string(ref[i].id);
                                    break;
                                }
                        if (!clause.empty())
                            rep.violation(clause, owner + ":" + clause + ":pod" + std::to_string(W),
                                          mc::J().s("pod", std::to_string(W)).str(), detail, 0);
                    }
        }
}

// ramp: EVERY range length n from 0 to 1100 (300 when small_only) - construction from a range of n elements at capacity
// n, n + 1 and n + 100, copy construction, copy assignment, range append into an empty and a half-filled vector, and the
// range that is one element too long.  A complete range of lengths, so a batch / chunk / growth threshold at 10, 100, 1000 or
// anywhere between lies inside it.  Reference: std::vector.
inline void ramp(const std::string& owner, mc::Report& rep, bool small_only)
{
    using P = Pod<8>;
    using FV = nitro::lang::fixed_vector<P>;
    std::vector<P> src;
    auto same = [](const FV& v, const std::vector<P>& ref, std::string& detail) {
        if (v.size() != ref.size())
        {
            detail = "size " + std::to_string(v.size()) + " expected " + std::to_string(ref.size());
            return false;
        }
        for (size_t i = 0; i < ref.size(); i++)
            if (!(v[i] == ref[i]))
            {
                detail = "index " + std::to_string(i) + " holds " + std::to_string(v[i].id) + " expected " + std::to_string(ref[i].id);
                return false;
            }
        return true;
    };
    for (size_t n = 0; n <= (small_only ? 300u : 1100u); n++)
    {
        if (n)
            src.push_back(mk<8>(1000 + static_cast<long>(n)));
        for (size_t cap : { n, n + 1, n + 100 })
        {
            std::string clause, detail, step, fstep;
            try
            {
                step = "fixed_vector(capacity, range)";
                FV v(cap, src);
                if (!same(v, src, detail))
                {
                    clause = "contents-differ-from-reference";
                    fstep = step;
                }
                step = "copy construction";
                FV c(v);
                if (clause.empty() && (!same(c, src, detail) || c.capacity() != cap))
                {
                    clause = "contents-differ-from-reference";
                    fstep = step;
                }
                step = "copy assignment";
                FV a(1);
                a = v;
                if (clause.empty() && !same(a, src, detail))
                {
                    clause = "contents-differ-from-reference";
                    fstep = step;
                }
                step = "push_back(first, last) into an empty vector";
                FV r(cap);
                r.push_back(src.begin(), src.end());
                if (clause.empty() && !same(r, src, detail))
                {
                    clause = "contents-differ-from-reference";
                    fstep = step;
                }
                step = "push_back(first, last) behind 50 elements";
                FV h(cap + 50);
                std::vector<P> href;
                for (long i = 0; i < 50; i++)
                {
                    h.emplace_back(mk<8>(i));
                    href.push_back(mk<8>(i));
                }
                h.push_back(src.begin(), src.end());
                href.insert(href.end(), src.begin(), src.end());
                if (clause.empty() && !same(h, href, detail))
                {
                    clause = "contents-differ-from-reference";
                    fstep = step;
                }
                if (n > 0 && cap == n)
                {
                    // erase at the front and in the middle: every tail length 0..n-1 is the number of elements that move down
                    for (size_t pos : { size_t(0), n / 2 })
                    {
                        step = "erase(begin() + " + std::to_string(pos) + ")";
                        FV e(cap, src);
                        std::vector<P> eref = src;
                        e.erase(e.begin() + pos);
                        eref.erase(eref.begin() + pos);
                        if (clause.empty() && !same(e, eref, detail))
                        {
                    clause = "contents-differ-from-reference";
                    fstep = step;
                }
                        step = "emplace(begin() + " + std::to_string(pos) + ", fresh) after the erase";
                        e.emplace(e.begin() + pos, mk<8>(7));
                        eref.insert(eref.begin() + pos, mk<8>(7));
                        if (clause.empty() && !same(e, eref, detail))
                        {
                    clause = "contents-differ-from-reference";
                    fstep = step;
                }
                    }
                }
            }
            catch (std::exception& e)
            {
                clause = "operation-threw-although-it-fits";
                detail = e.what();
            }
            if (clause.empty() && n > 0 && cap == n)
            {
                step = "fixed_vector(n - 1, range of n)";
                bool threw = false;
                try
                {
                    FV small(n - 1, src);
                }
                catch (std::exception&)
                {
                    threw = true;
                }
                if (!threw)
                    clause = "unsatisfiable-operation-did-not-throw";
            }
            rep.count("executions");
            rep.count("pod_ramp_cases");
            if (!clause.empty())
            {
                if (clause == "contents-differ-from-reference" && owner == "C06")
                    clause = "element-exposed-that-the-caller-did-not-put-there";
                rep.violation(clause, owner + ":" + clause + ":ramp", mc::J().s("ramp_length", std::to_string(n)).s("capacity", std::to_string(cap)).str(),
                              "range of " + std::to_string(n) + " trivially copyable elements, capacity " + std::to_string(cap) + ", " + (fstep.empty() ? step : fstep) + ": " + detail, 0);
            }
        }
    }
}

// A trivially copyable element type whose constructor from the emplace argument can refuse it (a validated plain-data
// wrapper: percentage, port number).  The instrumented types of fv.hpp throw but are not trivially copyable, the Pod types
// are trivially copyable but never throw - a bulk-move fast path for trivially copyable types that shifts before it
// constructs is only reached by both together.  A refused single-element operation leaves the contents unchanged.
struct Validated
{
    long id;
    Validated() : id(0)
    {
    }
    Validated(long v) : id(v)
    {
        if (v < 0)
            throw std::runtime_error("value rejected");
    }
    bool operator==(const Validated& o) const
    {
        return id == o.id;
    }
};
inline void refused_construction(const std::string& owner, mc::Report& rep)
{
    static_assert(std::is_trivially_copyable<Validated>::value, "trivially copyable on purpose");
    using FV = nitro::lang::fixed_vector<Validated>;
    for (size_t cap : { 4u, 5u, 40u })
        for (size_t fill = 0; fill < cap && fill <= 36; fill += (fill < 4 ? 1 : 16))
            for (size_t pos = 0; pos <= fill + 1; pos++)
            {
                FV v(cap);
                std::vector<long> ref;
                for (size_t i = 0; i < fill; i++)
                {
                    v.emplace_back(static_cast<long>(10 * (i + 1)));
                    ref.push_back(static_cast<long>(10 * (i + 1)));
                }
                bool threw = false, back = pos == fill + 1;
                try
                {
                    if (back)
                        v.emplace_back(-1L);
                    else
                        v.emplace(v.begin() + pos, -1L);
                }
                catch (std::exception&)
                {
                    threw = true;
                }
                rep.count("executions");
                rep.count("pod_refused_construction_cases");
                std::string what = "fixed_vector<trivially copyable type with a validating constructor>, capacity " + std::to_string(cap) + ", " + std::to_string(fill) +
                                   " elements, " + (back ? std::string("emplace_back(rejected value)") : "emplace(begin() + " + std::to_string(pos) + ", rejected value)");
                std::string clause, detail;
                if (!threw)
                    clause = "unsatisfiable-operation-did-not-throw", detail = what;
                else if (v.size() != ref.size())
                    clause = "failed-operation-changed-container", detail = what + ": size " + std::to_string(v.size()) + " expected " + std::to_string(ref.size());
                else
                    for (size_t i = 0; i < ref.size(); i++)
                        if (v[i].id != ref[i])
                        {
                            clause = "failed-operation-changed-container";
                            detail = what + ": index " + std::to_string(i) + " holds " + std::to_string(v[i].id) + " expected " + std::to_string(ref[i]);
                            break;
                        }
                if (!clause.empty())
                    rep.violation(clause, owner + ":" + clause + ":refused-construction", mc::J().s("pod", "validated").str(), detail, 0);
            }
}

inline void all(const std::string& owner, mc::Report& rep, bool small_only)
{
    if (owner == "C06")
        refused_construction(owner, rep);
    ramp(owner, rep, small_only);
    cases<8>(owner, rep, small_only);
    cases<128>(owner, rep, small_only);
    cases<304>(owner, rep, small_only);
}
} // namespace fvpod

// Shared skeleton of the parser checks (C01, C03, C04, C11, C12): enumerate cases, run reference and
// implementation, judge the clauses the property owns, minimise and sign violations.
#pragma once

#include "../ref/refparse.hpp"

#include <functional>
#include <sstream>

namespace pc
{
using namespace ref;

struct ParserCheck
{
    std::string id;
    std::function<bool(const std::string&)> judged;
    bool use_env_in_signature = false;
    // extra clauses evaluated on the live arguments object of a successful parse (reference result given)
    std::function<void(const Decl&, const Res& reference, const nitro::options::arguments&, std::vector<Diff>&)> on_accept;

    // reference vs implementation, all clauses (judged or not)
    std::vector<Diff> diffs(const Decl& D, const std::vector<std::string>& av, const Env& env, const Res& r,
                            Res* impl_out = nullptr) const
    {
        std::vector<Diff> extra;
        OnAccept cb;
        if (on_accept)
            cb = [&](const nitro::options::arguments& args, const Res&) { on_accept(D, r, args, extra); };
        auto i = impl(D, av, env, cb);
        if (impl_out)
            *impl_out = i;
        auto d = compare(r, i);
        d.insert(d.end(), extra.begin(), extra.end());
        return d;
    }

    std::vector<Diff> failing(const Decl& D, const std::vector<std::string>& av, const Env& env) const
    {
        std::vector<Diff> out;
        for (auto& d : diffs(D, av, env, refparse(D, av, env)))
            if (judged(d.clause))
                out.push_back(d);
        return out;
    }
    bool fails_with(const Decl& D, const std::vector<std::string>& av, const Env& env,
                    const std::string& clause, std::string* detail = nullptr) const
    {
        for (auto& d : failing(D, av, env))
            if (d.clause == clause)
            {
                if (detail)
                    *detail = d.detail;
                return true;
            }
        return false;
    }
    std::string signature(const Decl& D, const std::vector<std::string>& av, const Env& env,
                          const std::string& clause) const
    {
        std::string s = id + ":" + clause + ":" + class_seq(D, av);
        if (use_env_in_signature && !env.empty())
            s += " |env " + env_class(D, env);
        return s;
    }
    mc::Desc describe(const Decl& D, const std::vector<std::string>& av, const Env& env) const
    {
        std::string c = class_seq(D, av);
        if (use_env_in_signature)
            c += " |env " + env_class(D, env);
        return mc::Desc{ witness_json(D, av, env), c };
    }

    void run_case(const Decl& D, const std::vector<std::string>& av, const Env& env, mc::Report& rep,
                  long idx) const
    {
        Trace tr{ &rep.states, &rep.transitions };
        auto r = refparse(D, av, env, &tr);
        Res i;
        auto all = diffs(D, av, env, r, &i);
        rep.outcomes.insert(mc::hash(r.str()));
        auto cs = class_seq(D, av);
        if (cs.find('[') != std::string::npos || cs.find("SEP") != std::string::npos ||
            cs.find("MALF") != std::string::npos || !env.empty())
            rep.nontrivial.insert(mc::hash(D.str() + "|" + cs + "|" + env_class(D, env)));
        rep.count(i.ok ? "impl_accepts" : "impl_rejects");
        rep.count("executions");
        for (auto& d : all)
        {
            if (!judged(d.clause))
            {
                rep.count("not_judged_here:" + d.clause);
                continue;
            }
            auto clause = d.clause;
            std::vector<std::string> min = av;
            Env menv = env;
            if (rep.want_witness())
            {
                min = minimise(av, [&](const std::vector<std::string>& c) {
                    return fails_with(D, c, env, clause);
                });
                // drop environment variables that are not needed for the failure
                for (auto& kv : env)
                {
                    Env cand = menv;
                    cand.erase(kv.first);
                    if (fails_with(D, min, cand, clause))
                        menv = cand;
                }
            }
            std::string detail = d.detail;
            fails_with(D, min, menv, clause, &detail);
            rep.violation(clause, signature(D, min, menv, clause), witness_json(D, min, menv), detail, idx);
        }
        if (i.ok && av.size() >= 2 && idx % 1009 == 0)
            rep.sample(mc::J()
                           .s("decl", D.str())
                           .l("argv", av)
                           .raw("env", env_json(env))
                           .s("result", i.str())
                           .str());
    }

    // The other entry point: parse(std::vector<user_input>), the inputs built from the strings by user_input's checking
    // constructor.  That constructor rejects a malformed dash token wherever it stands (it cannot know about `--`);
    // for every other vector the outcome must be the reference's.
    static Res vector_entry_reference(const Decl& D, const std::vector<std::string>& av, const Env& env)
    {
        for (auto& t : av)
            if (lex(t).shape == Tok::MALFORMED)
            {
                Res r;
                r.why = "malformed dash token (checking constructor of user_input)";
                return r;
            }
        return refparse(D, av, env);
    }
    static std::string vector_entry_witness(const Decl& D, const std::vector<std::string>& av, const Env& env)
    {
        return mc::J().s("decl", D.str()).raw("declaration", decl_json(D)).l("argv", av).raw("env", env_json(env)).s("entry", "parse(std::vector<user_input>)").str();
    }
    mc::Desc describe_vector_entry(const Decl& D, const std::vector<std::string>& av, const Env& env) const
    {
        return mc::Desc{ vector_entry_witness(D, av, env), "vector-entry:" + class_seq(D, av) };
    }
    void run_vector_entry(const Decl& D, const std::vector<std::string>& av, const Env& env, mc::Report& rep, long idx) const
    {
        auto want = vector_entry_reference(D, av, env);
        auto got = impl_vector_entry(D, av, env);
        rep.count("executions");
        rep.count("vector_entry_cases");
        rep.transitions.insert(mc::hash("vec|" + D.str() + "|" + mc::jlist(av) + "|" + env_class(D, env)));
        for (auto& d : compare(want, got))
        {
            if (!judged(d.clause))
                continue;
            rep.violation("vector-entry:" + d.clause, id + ":vector-entry:" + d.clause + ":" + class_seq(D, av),
                          vector_entry_witness(D, av, env), "parse(std::vector<user_input>): " + d.detail, idx);
        }
    }

    // A second parse on the same parser object after an earlier one: the outcome of the second must still
    // agree with the reference for (D, av2, env2) alone.  `first` is parsed and its outcome ignored.
    void run_second(const Decl& D, const std::vector<std::string>& av1, const Env& env1,
                    const std::vector<std::string>& av2, const Env& env2, mc::Report& rep, long idx) const
    {
        auto r = refparse(D, av2, env2);
        nitro::options::parser p;
        build(p, D);
        apply_env(D, env1);
        run_on(p, D, av1);
        apply_env(D, env2);
        std::vector<Diff> extra;
        OnAccept cb;
        if (on_accept)
            cb = [&](const nitro::options::arguments& args, const Res&) { on_accept(D, r, args, extra); };
        auto i = run_on(p, D, av2, cb);
        rep.count("executions", 2);
        rep.count("second_parses");
        auto all = compare(r, i);
        all.insert(all.end(), extra.begin(), extra.end());
        for (auto& d : all)
        {
            if (!judged(d.clause))
                continue;
            std::string w = mc::J()
                                .s("decl", D.str())
                                .raw("declaration", decl_json(D))
                                .l("first_argv", av1)
                                .raw("first_env", env_json(env1))
                                .l("argv", av2)
                                .raw("env", env_json(env2))
                                .str();
            rep.violation("second-parse:" + d.clause,
                          id + ":second-parse:" + d.clause + ":" + class_seq(D, av1) + " ; " + class_seq(D, av2), w,
                          "after parse(" + mc::jlist(av1) + ") on the same parser, parse(" + mc::jlist(av2) + "): " + d.detail,
                          idx);
        }
    }

    // Argument vectors that put a (partially) declared parser through every token shape once before the part under test:
    // nothing at all, one valid vector using each declared item (long and `=` forms, a short value-taking form, a bundle
    // of toggle letters, a positional), a bundle and a long name that are rejected.  Whatever an implementation derives
    // lazily from its declarations (tables, letter sets) exists after these.
    static std::vector<std::vector<std::string>> warmups(const Decl& D)
    {
        std::vector<std::string> valid;
        std::string letters;
        bool opt_done = false;
        for (auto& it : D.items)
        {
            if (it.kind == 't')
            {
                if (it.sh.size() == 1)
                    letters += it.sh;
                else
                    valid.push_back("--" + it.name);
            }
            else if (it.kind == 'm')
            {
                if (it.sh.size() == 1)
                {
                    valid.push_back("-" + it.sh);
                    valid.push_back("w");
                }
                valid.push_back("--" + it.name + "=w");
            }
            else
            {
                valid.push_back(it.sh.size() == 1 && !opt_done ? "-" + it.sh + "=w" : "--" + it.name + "=w");
                opt_done = true;
            }
        }
        if (!letters.empty())
            valid.insert(valid.begin(), "-" + letters + letters.substr(0, 1));
        if (D.accepted != 0)
            valid.push_back("w");
        return { {}, valid, { "-\x01\x02" }, { "--zzz-unknown" } };
    }

    // The parser object had another declaration and was used with it, then a freshly declared parser is move-assigned into
    // it: the parse must agree with the reference for the new declaration alone.
    void run_after_replace(const Decl& Dold, const std::vector<std::string>& av_old, const Decl& D,
                           const std::vector<std::string>& av, mc::Report& rep, long idx, const Env& env = {}) const
    {
        auto r = refparse(D, av, env);
        nitro::options::parser p;
        build(p, Dold);
        apply_env(Dold, {});
        run_on(p, Dold, av_old);
        for (auto& w : warmups(Dold))
            run_on(p, Dold, w);
        {
            nitro::options::parser fresh;
            build(fresh, D);
            p = std::move(fresh);
        }
        apply_env(D, env);
        auto i = run_on(p, D, av);
        rep.count("executions", 2);
        rep.count("parses_after_move_assignment");
        for (auto& d : compare(r, i))
        {
            if (!judged(d.clause))
                continue;
            std::string w = mc::J()
                                .s("decl", D.str())
                                .raw("declaration", decl_json(D))
                                .raw("previous_declaration", decl_json(Dold))
                                .l("previous_argv", av_old)
                                .l("argv", av)
                                .raw("env", env_json(env))
                                .str();
            rep.violation("after-move-assignment:" + d.clause, id + ":after-move-assignment:" + d.clause + ":" + class_seq(D, av), w,
                          "parser object first declared as {" + Dold.str() + "} and used for " + mc::jlist(av_old) + " and warm-up vectors, then a parser {" + D.str() +
                              "} was move-assigned into it; parse(" + mc::jlist(av) + "): " + d.detail,
                          idx);
        }
    }

    // Incremental declaration: the first `k` items are declared, the parser is used (usage, then the warm-up parses), then
    // the remaining items are declared through group references the caller obtained *before* that first use (mode 0); or
    // all items are declared before the first use but the items from `k` on receive their short names only afterwards,
    // through the option references the caller kept (mode 1).  The parse of `av` must agree with the reference for the
    // complete declaration.
    void run_incremental(const Decl& D, size_t k, const std::vector<std::string>& av, const Env& env, mc::Report& rep, long idx, int mode = 0) const
    {
        auto r = refparse(D, av, env);
        apply_env(D, env);
        nitro::options::parser p;
        std::map<std::string, nitro::options::group*> kept;
        kept[""] = &p.group();
        for (auto& it : D.items)
            if (!it.group.empty() && !kept.count(it.group))
                kept[it.group] = &p.group(it.group);
        std::vector<std::function<void()>> late_names;
        auto declare = [&](const Item& it, bool with_short) {
            nitro::options::group& g = *kept[it.group];
            if (it.kind == 'o')
            {
                auto& o = g.option(it.name);
                if (!it.sh.empty() && with_short)
                    o.short_name(it.sh);
                else if (!it.sh.empty())
                    late_names.push_back([&o, &it] { o.short_name(it.sh); });
                if (!it.env.empty())
                    o.env(it.env);
                if (it.has_def)
                    o.default_value(it.def);
                if (it.optional)
                    o.optional();
            }
            else if (it.kind == 'm')
            {
                auto& o = g.multi_option(it.name);
                if (!it.sh.empty() && with_short)
                    o.short_name(it.sh);
                else if (!it.sh.empty())
                    late_names.push_back([&o, &it] { o.short_name(it.sh); });
                if (!it.env.empty())
                    o.env(it.env);
                if (it.has_def)
                    o.default_value(it.mdef);
                if (it.optional)
                    o.optional();
            }
            else
            {
                auto& o = g.toggle(it.name);
                if (!it.sh.empty() && with_short)
                    o.short_name(it.sh);
                else if (!it.sh.empty())
                    late_names.push_back([&o, &it] { o.short_name(it.sh); });
                if (!it.env.empty())
                    o.env(it.env);
                if (it.tdef)
                    o.default_value(it.tdef);
                if (it.rev)
                    o.allow_reverse();
            }
        };
        Decl part = D;
        if (mode == 0)
        {
            for (size_t i = 0; i < k && i < D.items.size(); i++)
                declare(D.items[i], true);
            part.items.resize(std::min(k, D.items.size()));
        }
        else
        {
            for (size_t i = 0; i < D.items.size(); i++)
            {
                declare(D.items[i], i < k);
                if (i >= k)
                    part.items[i].sh.clear();
            }
        }
        p.accept_positionals(D.accepted);
        p.greedy_postionals(D.greedy);
        {
            std::stringstream sink;
            p.usage(sink);
            for (auto& w : warmups(part)) // the parses come last: whatever the parser derives from its declarations exists now
                run_on(p, part, w);
        }
        if (mode == 0)
            for (size_t i = k; i < D.items.size(); i++)
                declare(D.items[i], true);
        else
            for (auto& f : late_names)
                f();
        apply_env(D, env);
        auto i = run_on(p, D, av);
        rep.count("executions", 2);
        rep.count("parses_after_incremental_declaration");
        for (auto& d : compare(r, i))
        {
            if (!judged(d.clause))
                continue;
            std::string w = mc::J().s("decl", D.str()).raw("declaration", decl_json(D)).n("declared_before_first_use", static_cast<long long>(k)).n("mode", mode).l("argv", av).raw("env", env_json(env)).str();
            rep.violation("incremental-declaration:" + d.clause, id + ":incremental-declaration:" + d.clause + ":" + class_seq(D, av), w,
                          (mode == 0 ? "first " + std::to_string(k) + " item(s) declared, parser used (usage, warm-up parses), the rest declared through kept group references"
                                     : "all items declared, those from #" + std::to_string(k) + " on without their short names; parser used (usage, warm-up parses); short names set afterwards through kept option references") +
                              "; parse(" + mc::jlist(av) + "): " + d.detail,
                          idx);
        }
    }

    // both "the object was used before" shapes for one (declaration, vector): incremental declaration for a few split
    // points in both modes, and move assignment over a parser that had `Dprev`
    template <typename Ctx>
    void used_before(Ctx& ctx, const Decl& D, const Decl& Dprev, const std::vector<std::string>& av, const Env& env) const
    {
        std::set<size_t> ks = { 0, 1, D.items.size() / 2 };
        for (size_t k : ks)
        {
            if (k >= D.items.size() && k != 0)
                continue;
            for (int mode = 0; mode < 2; mode++)
            {
                long idx = ctx.next;
                ctx.each([&] { return mc::Desc{ mc::J().s("decl", D.str()).raw("declaration", decl_json(D)).n("declared_before_first_use", static_cast<long long>(k)).n("mode", mode).l("argv", av).raw("env", env_json(env)).str(), "incremental:" + class_seq(D, av) }; },
                         [&](mc::Report& rep) { run_incremental(D, k, av, env, rep, idx, mode); });
            }
        }
        long idx = ctx.next;
        auto old = warmups(Dprev)[1];
        ctx.each([&] { return mc::Desc{ mc::J().s("decl", D.str()).raw("declaration", decl_json(D)).raw("previous_declaration", decl_json(Dprev)).l("previous_argv", old).l("argv", av).raw("env", env_json(env)).str(), "replace:" + class_seq(D, av) }; },
                 [&](mc::Report& rep) { run_after_replace(Dprev, old, D, av, rep, idx, env); });
    }

    int replay(const std::string& path) const
    {
        {
            auto doc = js::load(path);
            const js::Value& w = doc.has("witness") ? doc.at("witness") : doc;
            if (w.has("entry"))
            {
                Decl D = decl_from(w.at("declaration"));
                mc::Report rep;
                run_vector_entry(D, w.strings("argv"), env_from(w), rep, 0);
                printf("replay %s through parse(std::vector<user_input>): %s\n", id.c_str(), mc::jlist(w.strings("argv")).c_str());
                for (auto& v : rep.violations)
                    printf("  FAILED clause: %s\n    %s\n", v.second.clause.c_str(), v.second.detail.c_str());
                if (rep.violations.empty())
                    printf("  the parse agrees with the reference\n");
                return rep.violations.empty() ? 0 : 1;
            }
            if (w.has("declared_before_first_use"))
            {
                Decl D = decl_from(w.at("declaration"));
                mc::Report rep;
                run_incremental(D, static_cast<size_t>(w.n("declared_before_first_use")), w.strings("argv"), env_from(w), rep, 0, static_cast<int>(w.n("mode", 0)));
                printf("replay %s (incremental declaration)\n", id.c_str());
                for (auto& v : rep.violations)
                    printf("  FAILED clause: %s\n    %s\n", v.second.clause.c_str(), v.second.detail.c_str());
                if (rep.violations.empty())
                    printf("  the parse agrees with the reference\n");
                return rep.violations.empty() ? 0 : 1;
            }
            if (w.has("previous_declaration"))
            {
                Decl D = decl_from(w.at("declaration")), Dold = decl_from(w.at("previous_declaration"));
                mc::Report rep;
                run_after_replace(Dold, w.strings("previous_argv"), D, w.strings("argv"), rep, 0, env_from(w));
                printf("replay %s (parser object re-used through move assignment)\n", id.c_str());
                for (auto& v : rep.violations)
                    printf("  FAILED clause: %s\n    %s\n", v.second.clause.c_str(), v.second.detail.c_str());
                if (rep.violations.empty())
                    printf("  the parse agrees with the reference\n");
                return rep.violations.empty() ? 0 : 1;
            }
            if (w.has("first_argv"))
            {
                Decl D = decl_from(w.at("declaration"));
                Env e1, e2 = env_from(w);
                if (auto v = w.find("first_env"))
                    for (auto& kv : v->obj)
                        e1[kv.first] = kv.second.str;
                mc::Report rep;
                run_second(D, w.strings("first_argv"), e1, w.strings("argv"), e2, rep, 0);
                printf("replay %s (second parse on one parser): first %s then %s\n", id.c_str(),
                       mc::jlist(w.strings("first_argv")).c_str(), mc::jlist(w.strings("argv")).c_str());
                for (auto& v : rep.violations)
                    printf("  FAILED clause: %s\n    %s\n", v.second.clause.c_str(), v.second.detail.c_str());
                if (rep.violations.empty())
                    printf("  the second parse agrees with the reference\n");
                return rep.violations.empty() ? 0 : 1;
            }
        }
        return replay_case(path, id.c_str(),
                           [&](const Decl& D, const std::vector<std::string>& av, const Env& e) {
                               return failing(D, av, e);
                           });
    }
};

// all vectors of length 0..n over alpha, shortest first; f(av)
template <typename F>
void for_all_vectors(const std::vector<std::string>& alpha, int n, mc::Ctx& ctx, F&& f,
                     int min_len = 0)
{
    std::vector<std::string> av;
    for (int len = min_len; len <= n && !ctx.stop(); len++)
    {
        std::vector<size_t> ix(len, 0);
        for (;;)
        {
            av.clear();
            for (auto k : ix)
                av.push_back(alpha[k]);
            f(av);
            int p = len - 1;
            while (p >= 0 && ++ix[p] == alpha.size())
                ix[p--] = 0;
            if (p < 0)
                break;
        }
    }
}

inline mc::Sharded sharded(const mc::Args& a, const std::string& id)
{
    mc::Sharded sh;
    sh.id = id;
    sh.nworkers = a.jobs;
    sh.tmpdir = a.tmpdir;
    sh.deadline_s = a.deadline_s;
    return sh;
}

} // namespace pc

// C17 - split, join, replace_all and starts_with obey their string laws.
// Engine B: every string over {a, b, blank} up to a length bound x every separator / pattern / replacement of length
// <= 3 over the same alphabet (empty included); every list of <= 3 elements of length <= 2 x 5 infixes.  Oracle: naive
// single-pass reference implementations and the algebraic laws of the statement; every call must return (per-case
// timer + address-space limit).
#include "../engine/json.hpp"
#include "../engine/mc.hpp"

#include <nitro/lang/string.hpp>

#include <iomanip>
#include <list>
#include <new>
#include <set>
#include <sstream>

static const std::vector<char> ALPHA = { 'a', 'b', ' ' };
// second alphabet: a std::string may hold zero bytes; nothing may treat them as terminators
static const std::vector<char> ALPHA0 = { 'a', '\0' };

static std::vector<std::string> all_strings(int maxlen, const std::vector<char>& alpha = ALPHA)
{
    std::vector<std::string> out = { "" };
    size_t from = 0;
    for (int len = 1; len <= maxlen; len++)
    {
        size_t to = out.size();
        for (size_t i = from; i < to; i++)
            for (char c : alpha)
                out.push_back(out[i] + c);
        from = to;
    }
    return out;
}

// ---- naive references
static std::vector<std::string> ref_split(const std::string& s, const std::string& sep)
{
    std::vector<std::string> out;
    std::string cur;
    size_t i = 0;
    while (i < s.size())
    {
        if (s.compare(i, sep.size(), sep) == 0)
        {
            out.push_back(cur);
            cur.clear();
            i += sep.size();
        }
        else
            cur += s[i++];
    }
    out.push_back(cur);
    return out;
}
static size_t count_nonoverlapping(const std::string& s, const std::string& sep)
{
    size_t n = 0, i = 0;
    while (i + sep.size() <= s.size())
    {
        if (s.compare(i, sep.size(), sep) == 0)
        {
            n++;
            i += sep.size();
        }
        else
            i++;
    }
    return n;
}
static std::string ref_replace(const std::string& s, const std::string& pat, const std::string& rep)
{
    std::string out;
    size_t i = 0;
    while (i < s.size())
    {
        if (s.compare(i, pat.size(), pat) == 0)
        {
            out += rep;
            i += pat.size();
        }
        else
            out += s[i++];
    }
    return out;
}
static std::string ref_join(const std::vector<std::string>& el, const std::string& infix)
{
    std::string out;
    bool first = true;
    for (auto& e : el)
    {
        if (e.empty())
            continue;
        if (!first)
            out += infix;
        out += e;
        first = false;
    }
    return out;
}

struct Fail
{
    std::string clause, detail;
};

static void check_split(const std::string& s, const std::string& sep, std::vector<Fail>& f)
{
    std::vector<std::string> got;
    bool threw = false;
    try
    {
        got = nitro::lang::split(s, sep);
    }
    catch (std::exception&)
    {
        threw = true;
    }
    std::string ctx = "split(" + mc::jstr(s) + ", " + mc::jstr(sep) + ")";
    if (sep.empty())
    {
        if (!threw)
            f.push_back({ "split-empty-separator-must-throw", ctx + " returned " + mc::jlist(got) });
        return;
    }
    if (threw)
    {
        f.push_back({ "split-threw", ctx });
        return;
    }
    std::string glued;
    for (size_t i = 0; i < got.size(); i++)
        glued += (i ? sep : "") + got[i];
    if (glued != s)
        f.push_back({ "split-loses-text", ctx + " = " + mc::jlist(got) + " glued back gives " + mc::jstr(glued) });
    if (got.size() != 1 + count_nonoverlapping(s, sep))
        f.push_back({ "split-piece-count", ctx + " = " + mc::jlist(got) + " expected " + std::to_string(1 + count_nonoverlapping(s, sep)) + " pieces" });
    for (auto& p : got)
        if (p.find(sep) != std::string::npos)
            f.push_back({ "split-piece-contains-separator", ctx + " = " + mc::jlist(got) });
    if (got != ref_split(s, sep))
        f.push_back({ "split-differs-from-left-to-right-scan", ctx + " = " + mc::jlist(got) + " expected " + mc::jlist(ref_split(s, sep)) });
}

static void check_replace(const std::string& s, const std::string& pat, const std::string& rep, std::vector<Fail>& f)
{
    std::string got = s;
    std::string ctx = "replace_all(" + mc::jstr(s) + ", " + mc::jstr(pat) + ", " + mc::jstr(rep) + ")";
    try
    {
        nitro::lang::replace_all(got, pat, rep);
    }
    catch (std::bad_alloc&)
    {
        f.push_back({ "replace_all-does-not-return", ctx + " exhausted memory" });
        return;
    }
    catch (std::length_error&)
    {
        f.push_back({ "replace_all-does-not-return", ctx + " grew the string without bound" });
        return;
    }
    catch (std::exception& e)
    {
        if (!pat.empty())
            f.push_back({ "replace_all-threw", ctx + ": " + e.what() });
        return; // empty pattern: only termination is judged
    }
    if (pat.empty())
        return;
    auto want = ref_replace(s, pat, rep);
    if (got != want)
        f.push_back({ "replace_all-differs-from-single-pass", ctx + " = " + mc::jstr(got) + " expected " + mc::jstr(want) });
}

static void check_starts(const std::string& s, const std::string& p, std::vector<Fail>& f)
{
    bool want = s.size() >= p.size() && s.compare(0, p.size(), p) == 0;
    bool got = nitro::lang::starts_with(s, p);
    if (got != want)
        f.push_back({ "starts_with-is-not-the-prefix-relation", "starts_with(" + mc::jstr(s) + ", " + mc::jstr(p) + ") = " + (got ? "true" : "false") });
}

static void check_join(const std::vector<std::string>& el, const std::string& infix, std::vector<Fail>& f)
{
    auto want = ref_join(el, infix);
    std::string ctx = "join(" + mc::jlist(el) + ", " + mc::jstr(infix) + ")";
    auto a = nitro::lang::join(el, infix);
    auto b = nitro::lang::join(el.begin(), el.end(), infix);
    if (a != want)
        f.push_back({ "join-vector-overload", ctx + " = " + mc::jstr(a) + " expected " + mc::jstr(want) });
    if (b != want)
        f.push_back({ "join-iterator-overload", ctx + " = " + mc::jstr(b) + " expected " + mc::jstr(want) });
    if (infix == " ")
    {
        auto c = nitro::lang::join(el);
        if (c != want)
            f.push_back({ "join-default-infix", ctx + " = " + mc::jstr(c) + " expected " + mc::jstr(want) });
    }
}

// replace_all takes the string by reference and pattern / replacement by const reference: the same object may be passed
// twice.  The result is a function of the three VALUES at the time of the call.  mode 1: pattern is the string itself,
// 2: replacement is the string itself, 3: both
static void check_replace_aliased(const std::string& s, const std::string& other, int mode, std::vector<Fail>& f)
{
    std::string got = s;
    const std::string& pat = mode == 2 ? other : s;
    const std::string& rep = mode == 1 ? other : s;
    std::string ctx = std::string("std::string x = ") + mc::jstr(s) + "; replace_all(x, " + (mode == 2 ? mc::jstr(other) : "x") + ", " + (mode == 1 ? mc::jstr(other) : "x") + ")";
    try
    {
        if (mode == 1)
            nitro::lang::replace_all(got, got, other);
        else if (mode == 2)
            nitro::lang::replace_all(got, other, got);
        else
            nitro::lang::replace_all(got, got, got);
    }
    catch (std::bad_alloc&)
    {
        f.push_back({ "replace_all-does-not-return", ctx + " exhausted memory" });
        return;
    }
    catch (std::length_error&)
    {
        f.push_back({ "replace_all-does-not-return", ctx + " grew the string without bound" });
        return;
    }
    catch (std::exception& e)
    {
        if (!pat.empty())
            f.push_back({ "replace_all-threw", ctx + ": " + e.what() });
        return;
    }
    if (pat.empty())
        return;
    auto want = ref_replace(s, pat, rep);
    if (got != want)
        f.push_back({ "replace_all-differs-from-single-pass(aliased-arguments)", ctx + " leaves x = " + mc::jstr(got) + " expected " + mc::jstr(want) });
}

// ---- join over element types other than std::string: the element's text is its stream representation (each element
// on its own: nothing an element does to a stream may leak into the next element or the next call)
struct HexLeaker
{
    int v;
};
static std::ostream& operator<<(std::ostream& o, const HexLeaker& h)
{
    return o << "0x" << std::hex << h.v; // leaves the stream in hex mode
}
struct Fixer
{
    double v;
};
static std::ostream& operator<<(std::ostream& o, const Fixer& h)
{
    return o << std::fixed << std::setprecision(1) << std::boolalpha << h.v;
}
struct Row
{
    std::vector<std::string> cells;
};
static std::ostream& operator<<(std::ostream& o, const Row& r)
{
    return o << nitro::lang::join(r.cells, ","); // an element whose text is itself produced by join
}
template <typename It>
static std::string ref_join_streamed(It b, It e, const std::string& infix)
{
    std::vector<std::string> el;
    for (; b != e; ++b)
    {
        std::ostringstream o; // a fresh stream per element
        o << *b;
        el.push_back(o.str());
    }
    return ref_join(el, infix);
}
const int TYPED_KINDS = 11;
static const char* typed_name(int k)
{
    static const char* n[] = { "vector<int>", "vector<char>", "list<unsigned char>", "set<signed char>", "vector<double>", "vector<const char*>", "vector<HexLeaker>",
                               "vector<Row>", "vector<bool>", "vector<Fixer>", "vector<string>" };
    return n[k];
}
// returns {got, want}
static std::pair<std::string, std::string> typed_join(int kind, const std::string& infix)
{
    switch (kind)
    {
    case 0:
    {
        std::vector<int> v = { 10, 255, 4096, -3, 0 };
        return { nitro::lang::join(v.begin(), v.end(), infix), "10" + infix + "255" + infix + "4096" + infix + "-3" + infix + "0" };
    }
    case 1:
    {
        std::vector<char> v = { 'a', 'b', ' ', 'c' };
        return { nitro::lang::join(v.begin(), v.end(), infix), "a" + infix + "b" + infix + " " + infix + "c" };
    }
    case 2:
    {
        std::list<unsigned char> v = { 'x', 'y' };
        return { nitro::lang::join(v.begin(), v.end(), infix), "x" + infix + "y" };
    }
    case 3:
    {
        std::set<signed char> v = { 'q', 'p' };
        return { nitro::lang::join(v.begin(), v.end(), infix), "p" + infix + "q" };
    }
    case 4:
    {
        std::vector<double> v = { 0.5, 2, 0.123456 };
        return { nitro::lang::join(v.begin(), v.end(), infix), "0.5" + infix + "2" + infix + "0.123456" };
    }
    case 5:
    {
        std::vector<const char*> v = { "p", "", "q " };
        return { nitro::lang::join(v.begin(), v.end(), infix), "p" + infix + "q " };
    }
    case 6:
    {
        std::vector<HexLeaker> v = { { 255 }, { 16 } };
        return { nitro::lang::join(v.begin(), v.end(), infix), "0xff" + infix + "0x10" };
    }
    case 7:
    {
        std::vector<Row> v = { { { "a", "b", "c" } }, { {} }, { { "d", "", "e" } } };
        return { nitro::lang::join(v.begin(), v.end(), infix), "a,b,c" + infix + "d,e" };
    }
    case 8:
    {
        std::vector<bool> v = { true, false };
        return { nitro::lang::join(v.begin(), v.end(), infix), "1" + infix + "0" };
    }
    case 9:
    {
        std::vector<Fixer> v = { { 2.25 }, { 0.5 } };
        return { nitro::lang::join(v.begin(), v.end(), infix), ref_join_streamed(v.begin(), v.end(), infix) };
    }
    default:
    {
        std::vector<std::string> v = { "s", "", "t " };
        return { nitro::lang::join(v.begin(), v.end(), infix), "s" + infix + "t " };
    }
    }
}
// a history of join calls on one thread: every call is judged against its own reference
static void check_typed_history(const std::vector<int>& kinds, std::vector<Fail>& f)
{
    std::string done;
    for (size_t i = 0; i < kinds.size(); i++)
    {
        const std::string infix = i % 2 ? ";" : "-";
        auto r = typed_join(kinds[i], infix);
        done += std::string(done.empty() ? "" : ", ") + typed_name(kinds[i]);
        if (r.first != r.second)
        {
            f.push_back({ kinds.size() == 1 ? "join-element-text-is-not-its-stream-representation" : "join-depends-on-earlier-joins",
                          "join calls in this order: " + done + "; the last one gave " + mc::jstr(r.first) + " expected " + mc::jstr(r.second) });
            return;
        }
    }
}

static std::string shape(const std::string& s)
{
    // class of a string for signatures: length class + whether it contains blanks
    std::string c = s.empty() ? "empty" : s.size() == 1 ? "1" : "n";
    if (s.find(' ') != std::string::npos)
        c += "b";
    return c;
}

int main(int argc, char** argv)
{
    auto a = mc::parse_args(argc, argv);
    if (!a.replay.empty())
    {
        auto doc = js::load(a.replay);
        const js::Value& w = doc.has("witness") ? doc.at("witness") : doc;
        std::vector<Fail> f;
        std::string fn = w.s("fn");
        if (fn == "split")
            check_split(w.s("s"), w.s("p"), f);
        else if (fn == "replace_all")
        {
            if (w.has("r"))
                check_replace(w.s("s"), w.s("p"), w.s("r"), f);
            else
                for (auto& r : all_strings(3))
                    check_replace(w.s("s"), w.s("p"), r, f);
        }
        else if (fn == "starts_with")
            check_starts(w.s("s"), w.s("p"), f);
        else if (fn == "replace_all(aliased)")
            check_replace_aliased(w.s("s"), w.s("other"), static_cast<int>(w.n("mode")), f);
        else if (fn == "join(typed)")
        {
            std::vector<int> ks;
            for (auto& v : w.at("kinds").arr)
                ks.push_back(static_cast<int>(v.num));
            check_typed_history(ks, f);
        }
        else
            check_join(w.strings("elements"), w.s("infix"), f);
        printf("replay C17 %s\n", fn.c_str());
        for (auto& x : f)
            printf("  FAILED clause: %s\n    %s\n", x.clause.c_str(), x.detail.c_str());
        if (f.empty())
            printf("  all laws hold on this case\n");
        return f.empty() ? 0 : 1;
    }
    int L = a.thorough() ? 7 : 5;
    if (a.asan())
        L -= 1;
    if (!a.asan())
    {
        struct rlimit rl = { 2ul << 30, 2ul << 30 };
        setrlimit(RLIMIT_AS, &rl);
    }
    auto strings = all_strings(L);
    auto small = all_strings(3);
    {
        // the {a, NUL} alphabet, shorter bound
        auto s0 = all_strings(std::min(L, 5), ALPHA0), p0 = all_strings(3, ALPHA0);
        for (auto& x : s0)
            if (x.find('\0') != std::string::npos)
                strings.push_back(x);
        for (auto& x : p0)
            if (x.find('\0') != std::string::npos)
                small.push_back(x);
    }
    {
        // particular bytes: characters that are special to printf, regex, shells and terminals, and the sign boundary of char
        static const std::vector<char> ALPHAS = { 'a', '%', '\\', '$', '\x7f', '\x80', '\xff', '\t', '\r' };
        for (auto& x : all_strings(2, ALPHAS))
            if (x.find_first_not_of('a') != std::string::npos)
            {
                strings.push_back(x + "a" + x);
                small.push_back(x);
            }
    }
    // sizes: every short string stretched (repeated) to lengths around the thresholds an implementation may have (short
    // string optimisation, small buffers, narrow counters)
    size_t n_stretched = 0;
    {
        std::vector<std::string> stretched;
        for (auto& b : all_strings(3))
        {
            if (b.empty())
                continue;
            for (size_t target : { 15u, 16u, 17u, 31u, 32u, 33u, 63u, 64u, 65u, 255u, 256u, 257u, 1000u, 1023u, 1024u, 1025u, 5000u })
            {
                if (a.asan() && target > 65)
                    continue;
                if (target > 1000 && b.size() > 2)
                    continue; // more than a thousand occurrences of a one- or two-character pattern
                std::string x;
                while (x.size() < target)
                    x += b;
                x.resize(target);
                stretched.push_back(x);
            }
        }
        // ramp: EVERY number of occurrences 1..1100 of a one-character pattern (a complete range: a chunk of 100 or 1000
        // occurrences, or any other threshold below 1100, is inside)
        if (!a.asan())
            for (size_t n = 18; n <= 1100; n++)
                stretched.push_back(std::string(n, 'a'));
        n_stretched = stretched.size();
        strings.insert(strings.end(), stretched.begin(), stretched.end());
    }
    auto elems = all_strings(2);
    std::vector<std::string> infixes = { " ", ",", ", ", "", "ab" };
    mc::Sharded sh;
    sh.id = "C17";
    sh.nworkers = a.jobs;
    sh.tmpdir = a.tmpdir;
    sh.deadline_s = a.deadline_s;
    sh.case_timeout_s = 3;
    sh.walk = [&](mc::Ctx& ctx) {
        for (auto& s : strings)
            for (auto& p : small)
            {
                long idx = ctx.next;
                ctx.each([&] { return mc::Desc{ mc::J().s("fn", "replace_all").s("s", s).s("p", p).str(), "replace_all " + shape(s) + " " + shape(p) }; },
                         [&](mc::Report& rep) {
                             std::vector<Fail> f;
                             check_split(s, p, f);
                             check_starts(s, p, f);
                             rep.count("executions", 2);
                             for (auto& x : f)
                                 rep.violation(x.clause, "C17:" + x.clause + ":" + shape(s) + "/" + shape(p),
                                               mc::J().s("fn", x.clause.rfind("split", 0) == 0 ? "split" : "starts_with").s("s", s).s("p", p).str(), x.detail, idx);
                             for (auto& r : small)
                             {
                                 f.clear();
                                 check_replace(s, p, r, f);
                                 rep.count("executions");
                                 for (auto& x : f)
                                     rep.violation(x.clause, "C17:" + x.clause + ":" + shape(s) + "/" + shape(p) + "/" + shape(r),
                                                   mc::J().s("fn", "replace_all").s("s", s).s("p", p).s("r", r).str(), x.detail, idx);
                             }
                             rep.states.insert(mc::hash(s));
                             rep.transitions.insert(mc::hash(s + "\x1f" + p));
                             if (!p.empty() && s.find(p) != std::string::npos)
                                 rep.nontrivial.insert(mc::hash(s + "\x1f" + p));
                             rep.outcomes.insert(mc::hash(p.empty() ? std::string("throws") : mc::jlist(ref_split(s, p))));
                             if (idx % 3001 == 0 && !p.empty())
                                 rep.sample(mc::J().s("s", s).s("separator", p).l("split", ref_split(s, p)).str());
                         });
            }
        // join: lists of <= 3 elements of length <= 2
        for (int n = 0; n <= 3; n++)
        {
            std::vector<size_t> ix(n, 0);
            for (;;)
            {
                std::vector<std::string> el;
                for (auto k : ix)
                    el.push_back(elems[k]);
                for (auto& infix : infixes)
                {
                    long idx = ctx.next;
                    ctx.each([&] { return mc::Desc{ mc::J().s("fn", "join").l("elements", el).s("infix", infix).str(), "join" }; },
                             [&](mc::Report& rep) {
                                 std::vector<Fail> f;
                                 check_join(el, infix, f);
                                 rep.count("executions", 2);
                                 std::string cls;
                                 for (auto& e : el)
                                     cls += shape(e) + ",";
                                 for (auto& x : f)
                                     rep.violation(x.clause, "C17:" + x.clause + ":" + cls + "/" + shape(infix),
                                                   mc::J().s("fn", "join").l("elements", el).s("infix", infix).str(), x.detail, idx);
                                 rep.transitions.insert(mc::hash(mc::jlist(el) + infix));
                                 rep.nontrivial.insert(mc::hash(mc::jlist(el) + infix));
                             });
                }
                int p = n - 1;
                while (p >= 0 && ++ix[p] == elems.size())
                    ix[p--] = 0;
                if (p < 0)
                    break;
            }
        }
        // replace_all with the string itself as pattern and / or replacement (every call a case of its own: a call that
        // does not return is attributed exactly)
        for (auto& str : strings)
        {
            if (str.size() > 4)
                continue;
            std::vector<std::pair<std::string, int>> calls = { { "", 3 } };
            for (auto& o : small)
            {
                calls.push_back({ o, 1 });
                calls.push_back({ o, 2 });
            }
            for (auto& c : calls)
            {
                long idx = ctx.next;
                ctx.each([&] { return mc::Desc{ mc::J().s("fn", "replace_all(aliased)").s("s", str).s("other", c.first).n("mode", c.second).str(), "replace_all(aliased):mode" + std::to_string(c.second) + ":" + shape(str) }; },
                         [&](mc::Report& rep) {
                             std::vector<Fail> f;
                             check_replace_aliased(str, c.first, c.second, f);
                             rep.count("executions");
                             rep.transitions.insert(mc::hash("alias" + str + "\x1f" + c.first + std::to_string(c.second)));
                             for (auto& x : f)
                                 rep.violation(x.clause, "C17:" + x.clause + ":mode" + std::to_string(c.second) + ":" + shape(str),
                                               mc::J().s("fn", "replace_all(aliased)").s("s", str).s("other", c.first).n("mode", c.second).str(), x.detail, idx);
                         });
            }
        }
        // join over other element types: every history of <= 3 calls over 11 element types
        for (int len = 1; len <= 3; len++)
        {
            std::vector<int> ks(len, 0);
            for (;;)
            {
                long idx = ctx.next;
                std::string kj = "[";
                for (size_t i = 0; i < ks.size(); i++)
                    kj += (i ? "," : "") + std::to_string(ks[i]);
                kj += "]";
                ctx.each([&] { return mc::Desc{ mc::J().s("fn", "join(typed)").raw("kinds", kj).str(), "join(typed)" }; },
                         [&](mc::Report& rep) {
                             std::vector<Fail> f;
                             check_typed_history(ks, f);
                             rep.count("executions", ks.size());
                             rep.transitions.insert(mc::hash("typed" + kj));
                             rep.nontrivial.insert(mc::hash("typed" + kj));
                             for (auto& x : f)
                                 rep.violation(x.clause, "C17:" + x.clause + ":" + typed_name(ks.back()), mc::J().s("fn", "join(typed)").raw("kinds", kj).str(), x.detail, idx);
                         });
                int p = len - 1;
                while (p >= 0 && ++ks[p] == TYPED_KINDS)
                    ks[p--] = 0;
                if (p < 0)
                    break;
            }
        }
    };
    auto rep = sh.run();
    // join at sizes: many elements, long elements
    for (size_t count : { 17u, 64u, 257u, 1000u })
        for (size_t len : { 1u, 16u, 300u })
            for (auto infix : { ",", "" , ", " })
            {
                std::vector<std::string> el;
                for (size_t i = 0; i < count; i++)
                    el.push_back(i % 7 == 3 ? std::string() : std::string(len, static_cast<char>('a' + i % 26)));
                std::vector<Fail> f;
                check_join(el, infix, f);
                rep.count("executions", 3);
                for (auto& x : f)
                    rep.violation(x.clause, "C17:" + x.clause + ":many-or-long-elements", mc::J().s("fn", "join").l("elements", el).s("infix", infix).str(),
                                  x.detail.substr(0, 300), 0);
            }
    // join over non-string elements (streamed): one deterministic sanity case outside the enumeration
    {
        std::vector<int> nums = { 1, 22, 3 };
        std::list<std::string> lst = { "x", "", "y " };
        if (nitro::lang::join(nums.begin(), nums.end(), "-") != "1-22-3")
            rep.violation("join-iterator-overload", "C17:join-iterator-overload:ints", mc::J().s("fn", "join").l("elements", { "1", "22", "3" }).s("infix", "-").str(),
                          "join of ints {1,22,3} with '-' gives " + nitro::lang::join(nums.begin(), nums.end(), "-"), 0);
        (void)lst;
    }
    rep.counters["stretched_strings"] = n_stretched;
    rep.counters["bound_string_len"] = L;
    rep.counters["strings"] = strings.size();
    rep.counters["patterns_and_replacements"] = small.size();
    rep.notes["rule"] = "every string over {a,b,blank} of length <= bound (and over {a,NUL} up to length 5) x every separator/pattern of length <= 3 (empty included) for "
                        "split / starts_with, x every replacement of length <= 3 for replace_all; every list of <= 3 elements of "
                        "length <= 2 x 5 infixes for join; non-trivial = (string, pattern) pairs where the pattern occurs";
    mc::write_out(a, rep);
    return 0;
}

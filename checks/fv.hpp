// Shared machinery of C06 / C07: explicit-state exploration of nitro::lang::fixed_vector.
//
//  * element types Tracked (copyable) / MoveOnly with a global live-set, unfilled / moved-from markers and a
//    fault countdown (the k-th element operation throws),
//  * a world of numbered fixed_vector slots, each with a bounded std::vector reference,
//  * states are *recipes* (operation histories) replayed on fresh objects and keyed by the canonical string
//    capacity:size:[raw contents of ALL capacity slots],
//  * level-synchronous BFS over single-vector operations to a fixpoint, two-vector operations (copy/move
//    assignment) over all pairs of abstract-state representatives, and fault enumeration at every
//    (state, operation, throw position),
//  * every clause of the oracle has an owner (C06 or C07); a driver reports only the clauses it owns.
#pragma once

#include <memory>

#include <nitro/lang/fixed_vector.hpp>
#include <nitro/lang/reverse.hpp>

#include "../engine/json.hpp"
#include "../engine/mc.hpp"

#include <exception>
#include <set>
#include <sstream>
#include <string>
#include <vector>

namespace fv
{

// ---------------------------------------------------------------------------------------------
// instrumented element types

struct Fault : std::exception
{
    const char* what() const noexcept override
    {
        return "injected element fault";
    }
};

struct Registry
{
    std::set<const void*> live;
    long ops = 0;       // element operations since arm()
    long fault_at = 0;  // 0 = never
    bool armed = false;
    std::vector<std::string> errors;

    void reg(const void* p)
    {
        if (!live.insert(p).second)
            errors.push_back("element constructed twice at the same address without destruction in between");
    }
    void unreg(const void* p)
    {
        if (!live.erase(p))
            errors.push_back("element destroyed twice (or destroyed without having been constructed)");
    }
    char fault_kind = 0; // kind of the element operation that threw: D default ctor, V value ctor, C copy ctor,
                         // M move ctor, c copy assignment, m move assignment
    void tick(char kind)
    {
        if (!armed)
            return;
        if (++ops == fault_at)
        {
            fault_kind = kind;
            throw Fault();
        }
    }
    void arm(long at)
    {
        ops = 0;
        fault_at = at;
        armed = true;
    }
    long disarm()
    {
        armed = false;
        return ops;
    }
};
inline Registry& R()
{
    static Registry r;
    return r;
}

struct Tracked
{
    int v = 0;
    char mark = 'U'; // U unfilled (default constructed), F filled, M moved-from

    Tracked()
    {
        R().tick('D');
        R().reg(this);
    }
    Tracked(int x) : v(x), mark('F')
    {
        R().tick('V');
        R().reg(this);
    }
    Tracked(const Tracked& o) : v(o.v), mark(o.mark)
    {
        R().tick('C');
        R().reg(this);
    }
    Tracked(Tracked&& o) : v(o.v), mark(o.mark)
    {
        R().tick('M');
        R().reg(this);
        o.gut();
    }
    Tracked& operator=(const Tracked& o)
    {
        R().tick('c');
        check_live(&o);
        v = o.v;
        mark = o.mark;
        return *this;
    }
    Tracked& operator=(Tracked&& o)
    {
        R().tick('m');
        check_live(&o);
        if (&o != this)
        {
            v = o.v;
            mark = o.mark;
            o.gut();
        }
        return *this;
    }
    ~Tracked()
    {
        R().unreg(this);
    }
    void gut()
    {
        if (mark == 'F')
        {
            mark = 'M';
            v = -1;
        }
    }
    void check_live(const Tracked* o) const
    {
        if (!R().live.count(this) || !R().live.count(o))
            R().errors.push_back("assignment involving an element that is not alive");
    }
    static Tracked raw(int v, char mark)
    {
        Tracked t;
        t.v = v;
        t.mark = mark;
        return t;
    }
};

struct MoveOnly
{
    int v = 0;
    char mark = 'U';
    MoveOnly()
    {
        R().tick('D');
        R().reg(this);
    }
    MoveOnly(int x) : v(x), mark('F')
    {
        R().tick('V');
        R().reg(this);
    }
    MoveOnly(const MoveOnly&) = delete;
    MoveOnly& operator=(const MoveOnly&) = delete;
    MoveOnly(MoveOnly&& o) : v(o.v), mark(o.mark)
    {
        R().tick('M');
        R().reg(this);
        o.gut();
    }
    MoveOnly& operator=(MoveOnly&& o)
    {
        R().tick('m');
        if (!R().live.count(this) || !R().live.count(&o))
            R().errors.push_back("assignment involving an element that is not alive");
        if (&o != this)
        {
            v = o.v;
            mark = o.mark;
            o.gut();
        }
        return *this;
    }
    ~MoveOnly()
    {
        R().unreg(this);
    }
    void gut()
    {
        if (mark == 'F')
        {
            mark = 'M';
            v = -1;
        }
    }
};

// copyable, but NOT move-assignable: fixed_vector selects its copying replace() overload for such types
struct CopyOnly
{
    int v = 0;
    char mark = 'U';
    CopyOnly()
    {
        R().tick('D');
        R().reg(this);
    }
    CopyOnly(int x) : v(x), mark('F')
    {
        R().tick('V');
        R().reg(this);
    }
    CopyOnly(const CopyOnly& o) : v(o.v), mark(o.mark)
    {
        R().tick('C');
        R().reg(this);
    }
    CopyOnly& operator=(const CopyOnly& o)
    {
        R().tick('c');
        if (!R().live.count(this) || !R().live.count(&o))
            R().errors.push_back("assignment involving an element that is not alive");
        v = o.v;
        mark = o.mark;
        return *this;
    }
    CopyOnly& operator=(CopyOnly&&) = delete;
    ~CopyOnly()
    {
        R().unreg(this);
    }
};

// assign a fresh value to an element whatever the element type supports
template <typename T>
void assign_value(T& dst, int v)
{
    if constexpr (std::is_copy_assignable<T>::value)
    {
        const T tmp(v);
        dst = tmp;
    }
    else
        dst = T(v);
}

// ---------------------------------------------------------------------------------------------
// reference model and world

struct RefVec
{
    size_t cap = 0;
    std::vector<int> vals;
    bool exists = false;
    std::string str() const
    {
        if (!exists)
            return "<none>";
        std::string s = "cap" + std::to_string(cap) + "[";
        for (size_t i = 0; i < vals.size(); i++)
            s += (i ? "," : "") + std::to_string(vals[i]);
        return s + "]";
    }
};

// single-pass input iterators over a vector: all copies of an iterator share one position, the range can be walked once
template <typename T>
struct SinglePassCursor
{
    typename std::vector<T>::iterator cur, end;
};
template <typename T, bool Move>
struct SinglePass
{
    using iterator_category = std::input_iterator_tag;
    using value_type = T;
    using difference_type = std::ptrdiff_t;
    using pointer = T*;
    using reference = typename std::conditional<Move, T&&, const T&>::type;
    SinglePassCursor<T>* c; // nullptr: the end of every range
    bool at_end() const
    {
        return !c || c->cur == c->end;
    }
    reference operator*() const
    {
        return static_cast<reference>(*c->cur);
    }
    SinglePass& operator++()
    {
        ++c->cur;
        return *this;
    }
    SinglePass operator++(int)
    {
        SinglePass t = *this;
        ++c->cur;
        return t;
    }
    bool operator==(const SinglePass& o) const
    {
        return at_end() == o.at_end();
    }
    bool operator!=(const SinglePass& o) const
    {
        return !(*this == o);
    }
};

struct Op
{
    int slot = 0;
    std::string code;
    int a = 0, b = 0, other = -1;
    std::string str() const
    {
        std::string s = std::to_string(slot) + ":" + code;
        if (code == "CC" || code == "MC" || code == "CA" || code == "MA")
            return s + std::to_string(other);
        bool two = code == "EM" || code == "EMS" || code == "IR" || code == "NEWIT" || code == "WR" || code == "LA" || code == "NEWIL" || code == "PBR" || code == "IRI" || code == "PBRI";
        bool one = two || code == "NEW" || code == "EB" || code == "PB" || code == "IC" || code == "IM" || code == "EBS" || code == "PBS" || code == "ICS" || code == "ER" ||
                   code == "AT" || code == "ATC" || code == "GET" || code == "EB0";
        if (one)
            s += std::to_string(a);
        if (two)
            s += "," + std::to_string(b);
        return s;
    }
    static Op parse(const std::string& t)
    {
        Op o;
        auto c = t.find(':');
        o.slot = atoi(t.substr(0, c).c_str());
        size_t p = c + 1;
        while (p < t.size() && isalpha(static_cast<unsigned char>(t[p])))
            o.code += t[p++];
        std::string rest = t.substr(p);
        auto comma = rest.find(',');
        if (!rest.empty())
            o.a = atoi(rest.substr(0, comma).c_str());
        if (comma != std::string::npos)
            o.b = atoi(rest.substr(comma + 1).c_str());
        if (o.code == "CC" || o.code == "MC" || o.code == "CA" || o.code == "MA")
            o.other = o.a;
        return o;
    }
};
inline std::vector<Op> parse_recipe(const std::string& r, int* result_slot = nullptr)
{
    std::vector<Op> ops;
    std::stringstream ss(r);
    std::string t;
    int res = -1;
    while (ss >> t)
    {
        if (t[0] == '@')
        {
            res = atoi(t.c_str() + 1);
            continue;
        }
        ops.push_back(Op::parse(t));
    }
    if (result_slot)
        *result_slot = res >= 0 ? res : (ops.empty() ? 0 : ops.back().slot);
    return ops;
}
inline std::string recipe_str(const std::vector<Op>& ops, int result_slot)
{
    std::string s;
    for (auto& o : ops)
        s += o.str() + " ";
    return s + "@" + std::to_string(result_slot);
}
// renumber the slots of `r2` so that they are disjoint from those used by `r1`
inline int max_slot(const std::vector<Op>& ops)
{
    int m = -1;
    for (auto& o : ops)
        m = std::max(m, std::max(o.slot, o.other));
    return m;
}

struct Finding
{
    std::string owner;  // "C06" or "C07"
    std::string clause; // short, stable
    std::string detail;
};

template <typename T>
struct World
{
    using FV = nitro::lang::fixed_vector<T>;
    std::vector<std::unique_ptr<FV>> fv;
    std::vector<RefVec> ref;
    int nvalues = 2;
    std::vector<Finding>* out = nullptr; // null while materialising
    bool fault_mode = false;             // only the basic guarantee is judged
    long fault_at = 0;                   // k-th element operation inside the operation under test throws (0 = none)
    long element_ops = 0;                // element operations counted inside the last applied operation

    void ensure(int slot)
    {
        if (static_cast<int>(fv.size()) <= slot)
        {
            fv.resize(slot + 1);
            ref.resize(slot + 1);
        }
    }
    void fail(const char* owner, const std::string& clause, const std::string& detail)
    {
        if (out)
            out->push_back({ owner, clause, detail });
    }

    static std::string key_of(const FV* v)
    {
        if (!v)
            return "<none>";
        std::string s = std::to_string(v->capacity()) + ":" + std::to_string(v->size()) + ":";
        const T* d = v->data();
        if (!d)
            return s + "null";
        for (size_t i = 0; i < v->capacity(); i++)
            s += std::string(1, d[i].mark) + std::to_string(d[i].v) + (i + 1 < v->capacity() ? "," : "");
        return s;
    }
    std::string key(int slot) const
    {
        return key_of(fv[slot].get());
    }
    // abstract key: capacity + visible sequence
    std::string akey(int slot) const
    {
        auto& r = ref[slot];
        return r.str();
    }

    std::vector<T> make_range(int len, int start)
    {
        std::vector<T> r;
        r.reserve(len);
        for (int i = 0; i < len; i++)
            r.emplace_back(1 + (start + i) % nvalues);
        return r;
    }
    static std::vector<int> range_vals(int len, int start, int nvalues)
    {
        std::vector<int> r;
        for (int i = 0; i < len; i++)
            r.push_back(1 + (start + i) % nvalues);
        return r;
    }

    void resync(int slot, bool with_capacity = false)
    {
        auto& v = *fv[slot];
        auto& r = ref[slot];
        r.exists = true;
        if (with_capacity)
            r.cap = v.capacity();
        r.vals.clear();
        for (size_t i = 0; i < v.size(); i++)
            r.vals.push_back(v.data() ? v.data()[i].v : -99);
    }

    // ---- full observation of one slot against its reference
    void observe(int slot, const std::string& after)
    {
        if (!fv[slot])
            return;
        auto& v = *fv[slot];
        const auto& cv = v;
        auto& r = ref[slot];
        std::string ctx = " after " + after + " (slot " + std::to_string(slot) + ", reference " + r.str() + ", implementation " + key(slot) + ")";
        if (v.size() > v.capacity())
        {
            fail("C06", "size-exceeds-capacity", "size() " + std::to_string(v.size()) + " > capacity() " + std::to_string(v.capacity()) + ctx);
            return;
        }
        if (v.size() > 0 && !v.data())
        {
            fail("C06", "elements-without-storage", "size() > 0 but data() is null" + ctx);
            return;
        }
        if (fault_mode)
        {
            for (size_t i = 0; i < v.size(); i++)
                if (v.data()[i].mark == 'U')
                    fail("C06", "unfilled-slot-exposed", "index " + std::to_string(i) + " shows a slot nobody filled" + ctx);
            return;
        }
        if (v.capacity() != r.cap)
            fail("C06", "capacity-changed", "capacity() is " + std::to_string(v.capacity()) + ctx);
        if (v.size() != r.vals.size())
        {
            fail("C07", "size-differs-from-reference", "size() is " + std::to_string(v.size()) + ctx);
            return;
        }
        if (v.empty() != r.vals.empty())
            fail("C07", "empty()-wrong", ctx);
        size_t n = v.size();
        for (size_t i = 0; i < n; i++)
        {
            if (v[i].mark == 'U')
                fail("C06", "unfilled-slot-exposed", "index " + std::to_string(i) + " shows a slot nobody filled" + ctx);
            if (v[i].v != r.vals[i] || cv[i].v != r.vals[i])
                fail("C07", "contents-differ-from-reference", "operator[](" + std::to_string(i) + ") is " + std::to_string(v[i].v) + ctx);
            bool threw = false;
            try
            {
                if (&v.at(i) != &v[i] || &cv.at(i) != &cv[i])
                    fail("C07", "at-and-index-disagree", "at(" + std::to_string(i) + ") and operator[] address different objects" + ctx);
            }
            catch (std::exception&)
            {
                threw = true;
            }
            if (threw)
                fail("C07", "at-throws-in-range", "at(" + std::to_string(i) + ") threw although the index is below size()" + ctx);
        }
        // forward iteration (three flavours) visits exactly the live elements in order
        {
            std::vector<int> a, b, c;
            for (auto it = v.begin(); it != v.end(); ++it)
                a.push_back(it->v);
            for (auto it = cv.begin(); it != cv.end(); ++it)
                b.push_back(it->v);
            for (auto it = v.cbegin(); it != v.cend(); ++it)
                c.push_back(it->v);
            if (a != r.vals || b != r.vals || c != r.vals)
                fail("C07", "forward-iteration-differs", "begin()..end() does not visit the reference sequence" + ctx);
            if (v.begin() != v.data() || v.end() != v.data() + n)
                fail("C07", "forward-iteration-differs", "begin()/end() are not data() / data()+size()" + ctx);
        }
        // reverse iteration visits them in reverse order
        {
            std::vector<int> want(r.vals.rbegin(), r.vals.rend());
            std::vector<int> a, b, c, d;
            size_t guard = 0;
            for (auto it = v.rbegin(); it != v.rend() && guard++ <= n + 1; ++it)
                a.push_back((*it).v);
            guard = 0;
            for (auto it = cv.rbegin(); it != cv.rend() && guard++ <= n + 1; ++it)
                b.push_back((*it).v);
            guard = 0;
            for (auto it = v.crbegin(); it != v.crend() && guard++ <= n + 1; ++it)
                c.push_back((*it).v);
            guard = 0;
            for (auto& e : nitro::lang::reverse(v))
            {
                d.push_back(e.v);
                if (guard++ > n + 1)
                    break;
            }
            if (a != want)
                fail("C07", "reverse-iteration-differs", "rbegin()..rend() does not visit the elements in reverse order" + ctx);
            if (b != want)
                fail("C07", "reverse-iteration-differs", "const rbegin()..rend() does not visit the elements in reverse order" + ctx);
            if (c != want)
                fail("C07", "reverse-iteration-differs", "crbegin()..crend() does not visit the elements in reverse order" + ctx);
            if (d != want)
                fail("C07", "reverse-iteration-differs", "nitro::lang::reverse(v) does not visit the elements in reverse order" + ctx);
        }
        if (n > 0)
        {
            if (v.front().v != r.vals.front() || v.back().v != r.vals.back() || cv.front().v != r.vals.front() ||
                cv.back().v != r.vals.back())
                fail("C07", "front-back-differ", "front()/back() do not show the first/last element" + ctx);
        }
    }

    template <size_t I>
    T* get_at(FV& v)
    {
        return &std::get<I>(v);
    }
    T* get_rt(FV& v, int i)
    {
        switch (i)
        {
        case 0:
            return get_at<0>(v);
        case 1:
            return get_at<1>(v);
        case 2:
            return get_at<2>(v);
        case 3:
            return get_at<3>(v);
        case 4:
            return get_at<4>(v);
        case 5:
            return get_at<5>(v);
        case 6:
            return get_at<6>(v);
        default:
            return get_at<7>(v);
        }
    }

    // visible (abstract) contents: size + mark/value of the visible slots
    std::string visible(int slot) const
    {
        auto& v = *fv[slot];
        std::string s = std::to_string(v.size()) + ":";
        if (v.data())
            for (size_t i = 0; i < v.size() && i < v.capacity(); i++)
                s += std::string(1, v.data()[i].mark) + std::to_string(v.data()[i].v) + ",";
        return s;
    }
    // A single-element operation that failed because the *construction* of the new element threw must leave the
    // visible contents unchanged (a failing move/copy assignment while shifting is only held to the basic guarantee).
    void strong_on_construction_fault(const std::string& before_visible, int slot, const std::string& what)
    {
        char k = R().fault_kind;
        if (k != 'V' && k != 'C' && k != 'M' && k != 'D')
            return;
        if (visible(slot) != before_visible)
            fail("C06", "failed-operation-changed-container",
                 what + ": constructing the new element threw, but the visible contents changed from " + before_visible + " to " + visible(slot));
    }

    // expectation helpers
    void expect_throw_unchanged(bool threw, bool non_std, const std::string& before, int slot, const std::string& what)
    {
        if (non_std)
            fail("C06", "wrong-exception-type", what + " threw something that is not a std::exception");
        if (!threw)
            fail("C06", "unsatisfiable-operation-did-not-throw", what + " returned normally although it cannot be satisfied; before " + before + " after " + key(slot));
        else if (key(slot) != before)
            fail("C06", "failed-operation-changed-container", what + " threw but the container changed from " + before + " to " + key(slot));
    }

    // ---- apply one operation (reference + implementation).  Returns false if an injected fault escaped.
    bool apply(const Op& op)
    {
        ensure(std::max(op.slot, op.other));
        int s = op.slot;
        auto& r = ref[s];
        const std::string& c = op.code;
        std::string what = op.str();
        bool threw = false, non_std = false, fault = false;
        element_ops = 0;
        auto guarded = [&](auto&& f) {
            R().arm(fault_at);
            try
            {
                f();
            }
            catch (Fault&)
            {
                fault = true;
            }
            catch (std::exception&)
            {
                threw = true;
            }
            catch (...)
            {
                threw = true;
                non_std = true;
            }
            element_ops += R().disarm();
        };
        // ---------------- constructors
        if (c == "NEW")
        {
            guarded([&] { fv[s].reset(new FV(static_cast<size_t>(op.a))); });
            if (fault)
                return false;
            if (threw)
                fail("C06", "constructor-threw", what);
            r.exists = true;
            r.cap = op.a;
            r.vals.clear();
            return true;
        }
        if (c == "NEWIT")
        {
            // capacity a, iterable of length b
            if constexpr (std::is_copy_constructible<T>::value)
            {
                auto range = make_range(op.b, 0);
                guarded([&] { fv[s].reset(new FV(static_cast<size_t>(op.a), range)); });
                if (fault)
                    return false;
                bool fits = op.b <= op.a;
                if (fits && threw)
                    fail("C06", "constructor-threw", what + " threw although the range fits");
                if (!fits && !threw)
                    fail("C06", "unsatisfiable-operation-did-not-throw", what + ": the range does not fit but the constructor returned");
                if (non_std)
                    fail("C06", "wrong-exception-type", what);
                if (fv[s] && !threw)
                {
                    r.exists = true;
                    r.cap = op.a;
                    r.vals = fits ? range_vals(op.b, 0, nvalues) : std::vector<int>();
                    if (!fits)
                        resync(s);
                }
            }
            return true;
        }
        if (c == "NEWIL")
        {
            if constexpr (std::is_copy_constructible<T>::value)
            {
                guarded([&] {
                    std::initializer_list<T> l0 = {}, l1 = { T(1) }, l2 = { T(1), T(2) }, l3 = { T(1), T(2), T(1) };
                    const std::initializer_list<T>& il = op.a == 0 ? l0 : op.a == 1 ? l1 : op.a == 2 ? l2 : l3;
                    fv[s].reset(new FV(il));
                });
                if (fault)
                    return false;
                if (threw)
                    fail("C06", "constructor-threw", what);
                r.exists = true;
                r.cap = std::min(op.a, 3);
                r.vals = op.a == 0 ? std::vector<int>{} : op.a == 1 ? std::vector<int>{ 1 } : op.a == 2 ? std::vector<int>{ 1, 2 } : std::vector<int>{ 1, 2, 1 };
            }
            return true;
        }
        if (!fv[s] && c != "CC" && c != "MC")
            return true; // nothing to operate on (e.g. constructor threw)
        // ---------------- two-vector operations
        if (c == "CC" || c == "MC")
        {
            // slot s := copy / move of slot `other`
            if (!fv[op.other])
                return true;
            auto& src = *fv[op.other];
            auto src_ref = ref[op.other];
            std::string src_before = key(op.other);
            if (c == "CC")
            {
                if constexpr (std::is_copy_constructible<T>::value)
                {
                    guarded([&] { fv[s].reset(new FV(static_cast<const FV&>(src))); });
                    if (fault)
                        return false;
                    if (threw)
                        fail("C07", "copy-construction-threw", what);
                    else
                    {
                        ref[s] = src_ref;
                        if (key(op.other) != src_before)
                            fail("C07", "copy-changed-the-source", what + ": source was " + src_before + " is " + key(op.other));
                    }
                }
                return true;
            }
            guarded([&] { fv[s].reset(new FV(std::move(src))); });
            if (fault)
                return false;
            if (threw)
                fail("C07", "move-construction-threw", what);
            else
            {
                ref[s] = src_ref;
                if (!fault_mode && fv[s]->size() != src_ref.vals.size())
                    fail("C07", "move-did-not-transfer-the-sequence", what + ": target has size " + std::to_string(fv[s]->size()) +
                                                                          " source had " + src_ref.str());
                // the moved-from source is valid but unspecified: size <= capacity, usable
                if (src.size() > src.capacity() || (src.size() > 0 && !src.data()))
                    fail("C06", "moved-from-container-broken", what + ": moved-from source reports size " + std::to_string(src.size()) +
                                                                   " capacity " + std::to_string(src.capacity()) + (src.data() ? "" : " with null storage"));
                else
                    resync(op.other, true);
            }
            return true;
        }
        auto& v = *fv[s];
        std::string before = key(s);
        std::string before_visible = visible(s);
        size_t size0 = r.vals.size();
        bool full = size0 >= r.cap;
        if (c == "CA" || c == "MA")
        {
            if (!fv[op.other])
                return true;
            auto& src = *fv[op.other];
            auto src_ref = ref[op.other];
            std::string src_before = key(op.other);
            size_t oldcap = r.cap;
            if (c == "CA")
            {
                if constexpr (std::is_copy_constructible<T>::value)
                {
                    guarded([&] { v = static_cast<const FV&>(src); });
                    if (fault)
                        return false;
                    if (threw)
                    {
                        fail("C07", "copy-assignment-threw", what);
                        resync(s);
                        return true;
                    }
                    if (op.other != s && key(op.other) != src_before)
                        fail("C07", "copy-changed-the-source", what + ": source was " + src_before + " is " + key(op.other));
                }
                else
                    return true;
            }
            else
            {
                if (op.other == s)
                    return true;
                guarded([&] { v = std::move(src); });
                if (fault)
                    return false;
                if (threw)
                {
                    fail("C07", "move-assignment-threw", what);
                    resync(s);
                    return true;
                }
                if (src.size() > src.capacity() || (src.size() > 0 && !src.data()))
                    fail("C06", "moved-from-container-broken", what + ": moved-from source reports size " + std::to_string(src.size()) +
                                                                   " capacity " + std::to_string(src.capacity()) + (src.data() ? "" : " with null storage"));
                else
                    resync(op.other, true);
            }
            // contents must be the source's; capacity either the source's or (if it fits) the old one
            r.vals = src_ref.vals;
            if (v.capacity() == src_ref.cap || (v.capacity() == oldcap && src_ref.vals.size() <= oldcap))
                r.cap = v.capacity();
            else
                r.cap = src_ref.cap;
            if (!fault_mode && (v.size() != src_ref.vals.size()))
                fail("C07", "assignment-did-not-replace-the-contents", what + ": target is " + key(s) + " source was " + src_ref.str());
            return true;
        }
        if (c == "LA")
        {
            if constexpr (std::is_copy_constructible<T>::value)
            {
                size_t oldcap = r.cap;
                guarded([&] {
                    std::initializer_list<T> l0 = {}, l1 = { T(2) }, l2 = { T(2), T(1) }, l3 = { T(2), T(1), T(2) };
                    const std::initializer_list<T>& il = op.a == 0 ? l0 : op.a == 1 ? l1 : op.a == 2 ? l2 : l3;
                    v = il;
                });
                if (fault)
                    return false;
                std::vector<int> want = op.a == 0 ? std::vector<int>{} : op.a == 1 ? std::vector<int>{ 2 } : op.a == 2 ? std::vector<int>{ 2, 1 } : std::vector<int>{ 2, 1, 2 };
                if (threw)
                {
                    fail("C07", "list-assignment-threw", what);
                    resync(s);
                    return true;
                }
                r.vals = want;
                r.cap = (v.capacity() == oldcap && want.size() <= oldcap) ? oldcap : want.size();
                if (!fault_mode && v.size() != want.size())
                    fail("C07", "assignment-did-not-replace-the-contents", what + ": target is " + key(s) + " list has " + std::to_string(want.size()) + " elements");
            }
            return true;
        }
        // ---------------- single-element operations
        if (c == "EB" || c == "PB" || c == "IC" || c == "IM" || c == "EBS" || c == "PBS" || c == "ICS")
        {
            // plain value (EB, PB, IC, IM: a = value) or an element of the same container as argument (..S: a = index)
            bool self = c.size() == 3;
            if (self && (static_cast<size_t>(op.a) >= size0 || !std::is_copy_constructible<T>::value))
                return true;
            int value = self ? r.vals[op.a] : op.a;
            size_t ret = 999;
            if (c == "EB")
                guarded([&] { ret = v.emplace_back(op.a); });
            else if (c == "IM")
            {
                T arg(op.a);
                guarded([&] { ret = v.insert(std::move(arg)); });
            }
            else
            {
                if constexpr (std::is_copy_constructible<T>::value)
                {
                    T arg(op.a);
                    if (c == "PB")
                        guarded([&] { ret = v.push_back(arg); });
                    else if (c == "EBS")
                        guarded([&] { ret = v.emplace_back(v[op.a]); });
                    else if (c == "PBS")
                        guarded([&] { ret = v.push_back(v[op.a]); });
                    else
                    {
#ifndef FV_NO_INSERT_CONST
                        if (c == "ICS")
                            guarded([&] { ret = v.insert(static_cast<const T&>(v[op.a])); });
                        else
                            guarded([&] { ret = v.insert(static_cast<const T&>(arg)); });
#else
                        return true;
#endif
                    }
                    if (!fault && arg.v != op.a)
                        fail("C07", "copying-operation-changed-its-argument", what);
                }
                else
                    return true;
            }
            if (fault)
            {
                strong_on_construction_fault(before_visible, s, what);
                return false;
            }
            if (full)
                expect_throw_unchanged(threw, non_std, before, s, what + " on a full container");
            else
            {
                if (threw)
                {
                    fail("C07", "append-threw-with-capacity-left", what + " threw; container " + before);
                    resync(s);
                    return true;
                }
                r.vals.push_back(value);
                if (ret != size0)
                    fail("C07", "append-returned-wrong-index", what + " returned " + std::to_string(ret) + " expected " + std::to_string(size0));
            }
            return true;
        }
        if (c == "EB0")
        {
            // emplace_back() without arguments appends a value-initialised element (whatever the slot held before); the
            // caller then gives it the value a
            size_t ret = 999;
            guarded([&] { ret = v.emplace_back(); });
            if (fault)
            {
                strong_on_construction_fault(before_visible, s, what);
                return false;
            }
            if (full)
                expect_throw_unchanged(threw, non_std, before, s, what + " on a full container");
            else if (threw)
            {
                fail("C07", "append-threw-with-capacity-left", what + " threw; container " + before);
                resync(s);
            }
            else
            {
                if (ret != size0)
                    fail("C07", "append-returned-wrong-index", what + " returned " + std::to_string(ret) + " expected " + std::to_string(size0));
                else if (v.size() != size0 + 1)
                    fail("C07", "append-did-not-grow-the-sequence", what + ": size " + std::to_string(v.size()));
                else if (v.data()[ret].mark != 'U' || v.data()[ret].v != T().v)
                    fail("C07", "argument-less-emplace_back-did-not-append-a-value-initialised-element",
                         what + ": the new element shows " + std::string(1, v.data()[ret].mark) + std::to_string(v.data()[ret].v) + " (a stale slot?); container before " + before);
                if (v.size() == size0 + 1)
                {
                    assign_value(v[size0], op.a);
                    r.vals.push_back(op.a);
                }
                else
                    resync(s);
            }
            return true;
        }
        if (c == "EM" || c == "EMS")
        {
            // EM: a = position, b = value; EMS: a = position, b = index of an element of the same container
            size_t k = op.a;
            if (k > r.cap)
                return true;
            bool self = c == "EMS";
            if (self && (static_cast<size_t>(op.b) >= size0 || !std::is_copy_constructible<T>::value))
                return true;
            int value = self ? r.vals[op.b] : op.b;
            if (self)
            {
                if constexpr (std::is_copy_constructible<T>::value)
                    guarded([&] { v.emplace(v.begin() + k, v[op.b]); });
            }
            else
                guarded([&] { v.emplace(v.begin() + k, op.b); });
            if (fault)
            {
                if (k <= size0)
                    strong_on_construction_fault(before_visible, s, what);
                return false;
            }
            if (k > size0)
            {
                // position beyond the end: the statement is silent, only safety / invariants are judged
                resync(s);
                return true;
            }
            if (full)
                expect_throw_unchanged(threw, non_std, before, s, what + " on a full container");
            else
            {
                if (threw)
                {
                    fail("C07", "emplace-threw-with-capacity-left", what + " threw; container " + before);
                    resync(s);
                    return true;
                }
                r.vals.insert(r.vals.begin() + k, value);
            }
            return true;
        }
        if (c == "POP")
        {
            guarded([&] { v.pop_back(); });
            if (fault)
                return false;
            if (size0 == 0)
                expect_throw_unchanged(threw, non_std, before, s, what + " on an empty container");
            else
            {
                if (threw)
                    fail("C07", "pop-threw-on-non-empty", what);
                else
                    r.vals.pop_back();
            }
            return true;
        }
        if (c == "ER")
        {
            size_t k = op.a;
            if (k > r.cap)
                return true;
            guarded([&] { v.erase(v.begin() + k); });
            if (fault)
                return false;
            if (k >= size0)
                expect_throw_unchanged(threw, non_std, before, s, what + " at an index not below size()");
            else
            {
                if (threw)
                {
                    fail("C07", "erase-threw-in-range", what);
                    resync(s);
                }
                else
                    r.vals.erase(r.vals.begin() + k);
            }
            return true;
        }
        if (c == "AT" || c == "ATC" || c == "GET")
        {
            size_t i = op.a;
            const T* p = nullptr;
            if (c == "AT")
                guarded([&] { p = &v.at(i); });
            else if (c == "ATC")
                guarded([&] { p = &static_cast<const FV&>(v).at(i); });
            else
                guarded([&] { p = get_rt(v, static_cast<int>(i)); });
            if (i >= size0)
                expect_throw_unchanged(threw, non_std, before, s, what + " at an index not below size()");
            else if (threw)
                fail("C07", "at-throws-in-range", what + " threw although the index is below size(); container " + before);
            else if (p != v.data() + i)
                fail("C07", "at-and-index-disagree", what + " does not address data()[" + std::to_string(i) + "]");
            return true;
        }
        if (c == "WR")
        {
            // write through an accessor (a = index, b = value); way depends on (a+b)%3
            size_t i = op.a;
            if (i >= size0)
                return true;
            switch ((op.a + op.b) % 3)
            {
            case 0:
                assign_value(v[i], op.b);
                break;
            case 1:
                assign_value(v.at(i), op.b);
                break;
            default:
                assign_value(*(v.begin() + i), op.b);
                break;
            }
            r.vals[i] = op.b;
            return true;
        }
        // ---------------- range operations
        if (c == "IRI" || c == "PBRI")
        {
            // the same range operations, the range given by single-pass input iterators (like std::istream_iterator: the
            // range can be walked once, copies of an iterator share the position)
            bool pb = c == "PBRI";
            size_t k = pb ? size0 : op.a;
            int len = pb ? op.a : op.b;
            if (k > r.cap)
                return true;
            auto range = make_range(len, 1);
            SinglePassCursor<T> cur{ range.begin(), range.end() };
            if constexpr (std::is_copy_constructible<T>::value)
            {
                SinglePass<T, false> first{ &cur }, last{ nullptr };
                if (pb)
                    guarded([&] { v.push_back(first, last); });
                else
                    guarded([&] { v.insert(v.begin() + k, first, last); });
            }
            else
            {
                SinglePass<T, true> first{ &cur }, last{ nullptr };
                if (pb)
                    guarded([&] { v.push_back(first, last); });
                else
                    guarded([&] { v.insert(v.begin() + k, first, last); });
            }
            if (fault)
                return false;
            if (non_std)
                fail("C06", "wrong-exception-type", what);
            bool fits = k <= size0 && k + len <= r.cap;
            if (!fits && !threw)
                fail("C06", "unsatisfiable-operation-did-not-throw", what + ": the range does not fit (or starts beyond the end) but the call returned; before " + before + " after " + key(s));
            if (fits && threw)
                fail("C07", "range-append-threw-although-it-fits", what + "; container " + before);
            if (fits && !threw && k == size0)
            {
                auto rv = range_vals(len, 1, nvalues);
                r.vals.insert(r.vals.end(), rv.begin(), rv.end());
            }
            else
                resync(s);
            return true;
        }
        if (c == "IR" || c == "PBR")
        {
            size_t k = c == "PBR" ? size0 : op.a;
            int len = c == "PBR" ? op.a : op.b;
            if (k > r.cap)
                return true;
            if constexpr (std::is_copy_constructible<T>::value)
            {
                auto range = make_range(len, 1);
                if (c == "PBR")
                    guarded([&] { v.push_back(range.begin(), range.end()); });
                else
                    guarded([&] { v.insert(v.begin() + k, range.begin(), range.end()); });
            }
            else
            {
                auto range = make_range(len, 1);
                if (c == "PBR")
                    guarded([&] { v.push_back(std::make_move_iterator(range.begin()), std::make_move_iterator(range.end())); });
                else
                    guarded([&] { v.insert(v.begin() + k, std::make_move_iterator(range.begin()), std::make_move_iterator(range.end())); });
            }
            if (fault)
            {
                // basic guarantee for a range append: whatever became visible must be what the caller put there -
                // the old elements, followed by a prefix of the range
                if (k == size0 && v.data() && v.size() <= v.capacity())
                {
                    auto rv = range_vals(len, 1, nvalues);
                    for (size_t i = size0; i < v.size(); i++)
                    {
                        auto& e = v.data()[i];
                        bool ok = i - size0 < rv.size() && e.mark == 'F' && e.v == rv[i - size0];
                        if (!ok)
                            fail("C06", "element-exposed-that-the-caller-did-not-put-there",
                                 what + ": an element copy threw, afterwards index " + std::to_string(i) + " shows " + std::string(1, e.mark) +
                                     std::to_string(e.v) + " which is not the corresponding range element; before " + before + " after " + key(s));
                    }
                }
                return false;
            }
            if (non_std)
                fail("C06", "wrong-exception-type", what);
            bool fits = k <= size0 && k + len <= r.cap;
            if (!fits && !threw)
                fail("C06", "unsatisfiable-operation-did-not-throw", what + ": the range does not fit (or starts beyond the end) but the call returned; before " + before + " after " + key(s));
            if (fits && threw)
                fail("C07", "range-append-threw-although-it-fits", what + "; container " + before);
            if (fits && !threw && k == size0)
            {
                auto rv = range_vals(len, 1, nvalues);
                r.vals.insert(r.vals.end(), rv.begin(), rv.end());
            }
            else
                resync(s); // positioned insert / failed range: contents are not prescribed, only safety and invariants
            return true;
        }
        fprintf(stderr, "unknown op %s\n", what.c_str());
        abort();
    }
};

} // namespace fv

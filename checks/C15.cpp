// C15 - usage text lists everything once, in declaration order, on any stream.
// Engine B: declarations (single items over the full attribute product; 2-3 items over groups, creation orders and
// name permutations) x 7 target streams.  Oracle: (a) differential - text appended to any stream equals the text
// on a fresh string stream; (b) every item in the synopsis; (c) option section parsed back: groups in creation
// order, items in declaration order, each exactly once with spelling / placeholder; (d) right-column words equal
// description + environment hint + default; (e) line width <= 80 unless a word cannot fit the column.
#include "../engine/json.hpp"
#include "../engine/mc.hpp"

#include <iomanip>
#include <nitro/options/parser.hpp>

#include <iostream>
#include <memory>
#include <sstream>
#include <streambuf>

struct UItem
{
    char kind = 'o';
    std::string name, sh, env, metavar, desc, group;
    bool has_def = false;
    std::string def;
    std::vector<std::string> mdef;
    int tdef = 0;
    bool rev = false;

    std::string cls() const
    {
        std::string s(1, kind);
        s += "[";
        if (!sh.empty())
            s += "short,";
        if (name.size() > 10)
            s += "longname,";
        if (!env.empty())
            s += "env,";
        if (has_def || tdef)
            s += "default,";
        if (!metavar.empty())
            s += "metavar,";
        if (rev)
            s += "reversible,";
        size_t longest = 0, words = 0;
        std::stringstream ss(desc);
        std::string w;
        while (ss >> w)
        {
            longest = std::max(longest, w.size());
            words++;
        }
        s += "desc:" + std::to_string(words) + "w/max" + std::to_string(longest);
        if (!group.empty())
            s += ",@" + group;
        return s + "]";
    }
};

struct UDecl
{
    std::string app = "prog", about;
    std::vector<std::string> pre_groups; // groups created before any item, in this order
    std::vector<UItem> items;
    bool positionals = false;

    std::string cls() const
    {
        std::string s = "app" + std::to_string(app.size());
        if (!pre_groups.empty())
        {
            s += " pre:";
            for (auto& g : pre_groups)
                s += g;
        }
        for (auto& i : items)
            s += " " + i.cls();
        if (positionals)
            s += " +pos";
        return s;
    }
    std::string json() const
    {
        std::string its = "[";
        for (size_t k = 0; k < items.size(); k++)
        {
            auto& i = items[k];
            mc::J j;
            j.s("kind", std::string(1, i.kind)).s("name", i.name).s("short", i.sh).s("env", i.env).s("metavar", i.metavar);
            j.s("desc", i.desc).s("group", i.group).b("has_default", i.has_def).s("default", i.def).l("mdefault", i.mdef);
            j.n("tdefault", i.tdef).b("reversible", i.rev);
            its += (k ? "," : "") + j.str();
        }
        its += "]";
        return mc::J().s("app", app).s("about", about).l("pre_groups", pre_groups).raw("items", its).b("positionals", positionals).str();
    }
    static UDecl from(const js::Value& v)
    {
        UDecl d;
        d.app = v.s("app");
        d.about = v.s("about");
        d.pre_groups = v.strings("pre_groups");
        d.positionals = v.flag("positionals");
        for (auto& e : v.at("items").arr)
        {
            UItem i;
            i.kind = e.s("kind")[0];
            i.name = e.s("name");
            i.sh = e.s("short");
            i.env = e.s("env");
            i.metavar = e.s("metavar");
            i.desc = e.s("desc");
            i.group = e.s("group");
            i.has_def = e.flag("has_default");
            i.def = e.s("default");
            i.mdef = e.strings("mdefault");
            i.tdef = static_cast<int>(e.n("tdefault"));
            i.rev = e.flag("reversible");
            d.items.push_back(i);
        }
        return d;
    }
};

static const char* group_desc(const std::string& g)
{
    return g == "g1" ? "first group" : "";
}

static void build(nitro::options::parser& p, const UDecl& d)
{
    for (auto& g : d.pre_groups)
        p.group(g, group_desc(g));
    for (auto& i : d.items)
    {
        auto& grp = i.group.empty() ? p.group() : p.group(i.group, group_desc(i.group));
        if (i.kind == 'o')
        {
            auto& o = grp.option(i.name, i.desc);
            if (!i.sh.empty())
                o.short_name(i.sh);
            if (!i.env.empty())
                o.env(i.env);
            if (i.has_def)
                o.default_value(i.def);
            if (!i.metavar.empty())
                o.metavar(i.metavar);
        }
        else if (i.kind == 'm')
        {
            auto& o = grp.multi_option(i.name, i.desc);
            if (!i.sh.empty())
                o.short_name(i.sh);
            if (!i.env.empty())
                o.env(i.env);
            if (i.has_def)
                o.default_value(i.mdef);
            if (!i.metavar.empty())
                o.metavar(i.metavar);
        }
        else
        {
            auto& o = grp.toggle(i.name, i.desc);
            if (!i.sh.empty())
                o.short_name(i.sh);
            if (!i.env.empty())
                o.env(i.env);
            if (i.tdef)
                o.default_value(i.tdef);
            if (i.rev)
                o.allow_reverse();
        }
    }
    if (d.positionals)
        p.accept_positionals(3);
}

// a stream buffer that cannot seek (tellp() == -1), like std::cout on a terminal or pipe
struct SinkBuf : std::streambuf
{
    std::string data;
    int_type overflow(int_type c) override
    {
        if (c != traits_type::eof())
            data += static_cast<char>(c);
        return c;
    }
    std::streamsize xsputn(const char* s, std::streamsize n) override
    {
        data.append(s, n);
        return n;
    }
};

static const char* STREAMS[] = { "fresh", "prior1", "prior79", "prior200", "prior79+nl", "prior200+nl", "nonseekable",
                                 "fresh-after-a-parse", "fresh-from-the-moved-parser", "fresh-after-a-parse-that-took-values-from-the-environment", "stream-with-formatting-state" };
static const int NSTREAMS = 11;

static std::string usage_to(nitro::options::parser& p, int stream)
{
    if (stream == 6)
    {
        SinkBuf b;
        std::ostream o(&b);
        p.usage(o);
        return b.data;
    }
    if (stream == 10)
    {
        // the caller's stream carries formatting state left over from earlier output (sticky fill character and flags, a
        // pending width)
        std::stringstream s;
        s << std::setfill('0') << std::hex << std::showbase << std::uppercase << std::boolalpha << std::left << std::setprecision(2);
        s.width(12);
        p.usage(s);
        return s.str();
    }
    std::string prior;
    switch (stream)
    {
    case 1:
        prior = "x";
        break;
    case 2:
        prior = std::string(79, 'x');
        break;
    case 3:
        prior = std::string(200, 'y');
        break;
    case 4:
        prior = std::string(79, 'x') + "\n";
        break;
    case 5:
        prior = std::string(150, 'y') + "\n" + std::string(49, 'z') + "\n";
        break;
    }
    std::stringstream s;
    s << prior;
    p.usage(s);
    auto all = s.str();
    if (all.compare(0, prior.size(), prior) != 0)
        return "<prior content destroyed>" + all;
    return all.substr(prior.size());
}

// The same parser object writes its usage first to a fresh string stream and then to the other stream.  (Two
// separately built parsers may legitimately order long toggles differently in the synopsis: that order follows
// object addresses and is not prescribed by the property.)
static std::pair<std::string, std::string> usage_pair(const UDecl& d, int stream)
{
    nitro::options::parser p(d.app, d.about);
    build(p, d);
    auto fresh = usage_to(p, 0);
    if (stream == 7)
    {
        // the usual --help / error path: the parser has parsed (here: an empty command line, whatever the outcome)
        const char* argv[] = { "prog" };
        try
        {
            p.parse(1, argv);
        }
        catch (std::exception&)
        {
        }
        return { fresh, usage_to(p, 0) };
    }
    if (stream == 9)
    {
        // as 7, but every environment variable the declaration binds is set to something other than the declared default
        // while the parser parses; the usage text describes the declaration, not the outcome of a parse
        for (auto& i : d.items)
            if (!i.env.empty())
                setenv(i.env.c_str(), i.kind == 't' ? (i.tdef ? "0" : "1") : i.kind == 'm' ? "e1;e2" : "from-the-environment", 1);
        const char* argv[] = { "prog" };
        try
        {
            p.parse(1, argv);
        }
        catch (std::exception&)
        {
        }
        for (auto& i : d.items)
            if (!i.env.empty())
                unsetenv(i.env.c_str());
        return { fresh, usage_to(p, 0) };
    }
    if (stream == 8)
    {
        // the parser object is moved (e.g. returned from a function) and the old one destroyed; the same option objects
        // are written before and after the move (the synopsis orders long toggles by object address)
        std::unique_ptr<nitro::options::parser> hp(new nitro::options::parser(d.app, d.about));
        build(*hp, d);
        auto before = usage_to(*hp, 0);
        nitro::options::parser moved(std::move(*hp));
        hp.reset();
        return { before, usage_to(moved, 0) };
    }
    auto other = stream ? usage_to(p, stream) : fresh;
    return { fresh, other };
}
static std::string usage_on(const UDecl& d, int stream)
{
    return usage_pair(d, stream).second;
}

static std::vector<std::string> words_of(const std::string& s)
{
    std::vector<std::string> w;
    std::string cur;
    for (char c : s)
    {
        if (c == ' ' || c == '\t' || c == '\n')
        {
            if (!cur.empty())
                w.push_back(cur);
            cur.clear();
        }
        else
            cur += c;
    }
    if (!cur.empty())
        w.push_back(cur);
    return w;
}
static std::string squeeze(const std::string& s)
{
    std::string o;
    for (auto& w : words_of(s))
        o += (o.empty() ? "" : " ") + w;
    return o;
}

struct Fail
{
    std::string clause, detail;
};

static std::string expected_head(const UItem& i)
{
    std::string h = "  ";
    if (!i.sh.empty())
        h += "-" + i.sh + ", ";
    h += (i.kind == 't' && i.rev) ? "--[no-]" + i.name : "--" + i.name;
    if (i.kind != 't')
        h += " " + (i.metavar.empty() ? std::string("ARG") : i.metavar);
    return h;
}
static std::vector<std::string> expected_words(const UItem& i)
{
    std::string t = i.desc;
    if (!i.env.empty())
        t += " Can be set using the environment variable '" + i.env + "'.";
    if (i.kind == 'o' && i.has_def)
        t += " (default: " + i.def + ")";
    if (i.kind == 'm' && i.has_def)
    {
        t += " (default: ";
        for (size_t k = 0; k < i.mdef.size(); k++)
            t += (k ? ", " : "") + i.mdef[k];
        t += ")";
    }
    if (i.kind == 't' && i.rev)
        t += std::string(" (default: ") + (i.tdef ? "enabled" : "disabled") + ")";
    return words_of(t);
}

static std::vector<Fail> structural(const UDecl& d, const std::string& text)
{
    std::vector<Fail> f;
    std::vector<std::string> lines;
    {
        std::string cur;
        for (char c : text)
        {
            if (c == '\n')
            {
                lines.push_back(cur);
                cur.clear();
            }
            else
                cur += c;
        }
        if (!cur.empty())
            lines.push_back(cur);
    }
    // ---- synopsis: from line 0 up to the first empty line.  Only what the statement says is demanded: every declared
    // item is mentioned (by its long spelling, or - for a toggle with a short name - by its letter in a group of
    // short toggles).  The concrete layout (brackets, separators, order) is not prescribed.
    size_t ln = 0;
    std::string synopsis;
    while (ln < lines.size() && !lines[ln].empty())
        synopsis += lines[ln++] + " ";
    std::string syn = squeeze(synopsis);
    if (syn.find(d.app) == std::string::npos)
        f.push_back({ "synopsis-start", "synopsis does not name the application '" + d.app + "': " + syn.substr(0, 60) });
    auto has_token = [&](const std::string& hay, const std::string& tok) {
        // tok occurs and is not the prefix of a longer name
        for (size_t p = hay.find(tok); p != std::string::npos; p = hay.find(tok, p + 1))
        {
            size_t e = p + tok.size();
            if (e >= hay.size() || !(isalnum(static_cast<unsigned char>(hay[e])) || hay[e] == '-' || hay[e] == '_'))
                return true;
        }
        return false;
    };
    auto in_short_group = [&](const std::string& letter) {
        // some "[-xyz]" / "-xyz" group of letters (no second dash) contains the letter
        for (size_t p = syn.find('-'); p != std::string::npos; p = syn.find('-', p + 1))
        {
            if (p + 1 >= syn.size() || syn[p + 1] == '-' || (p > 0 && (syn[p - 1] == '-' || isalnum(static_cast<unsigned char>(syn[p - 1])))))
                continue;
            size_t e = p + 1;
            while (e < syn.size() && syn[e] != ']' && syn[e] != ' ') // a short name is any single character
                e++;
            if (syn.substr(p + 1, e - p - 1).find(letter) != std::string::npos)
                return true;
        }
        return false;
    };
    for (auto& i : d.items)
    {
        bool ok = has_token(syn, "--" + i.name) || (i.kind == 't' && i.rev && has_token(syn, "--[no-]" + i.name));
        if (!ok && i.kind == 't' && !i.sh.empty())
            ok = in_short_group(i.sh);
        if (!ok)
            f.push_back({ "synopsis-misses-item", "synopsis does not mention " + std::string(i.kind == 't' ? "toggle " : "option ") + i.name + " : " + syn });
    }
    // ---- option section: group headers and entries (layout tolerant: an entry starts on an indented line whose first
    // token begins with '-', its continuation lines are indented lines that do not)
    std::vector<std::string> group_order;
    auto note_group = [&](const std::string& g) {
        for (auto& x : group_order)
            if (x == g)
                return;
        group_order.push_back(g);
    };
    note_group("");
    for (auto& g : d.pre_groups)
        note_group(g);
    for (auto& i : d.items)
        note_group(i.group);
    struct Entry
    {
        std::string group, head_line, text;
    };
    std::vector<Entry> entries;
    std::vector<std::string> seen_groups;
    std::string cur_group = "<none>";
    size_t cont_indent = 0; // observed indentation of continuation lines (0 = none seen)
    for (; ln < lines.size(); ln++)
    {
        auto& l = lines[ln];
        if (l.empty())
            continue;
        size_t ind = l.find_first_not_of(' ');
        if (ind == std::string::npos)
            continue;
        bool declared_group = false;
        for (auto& g : group_order)
            declared_group = declared_group || (!g.empty() && l == g + ":");
        if (ind == 0 && l.back() == ':' && (l.find(' ') == std::string::npos || declared_group))
        {
            cur_group = l.substr(0, l.size() - 1);
            seen_groups.push_back(cur_group);
            continue;
        }
        if (ind > 0 && l[ind] == '-')
        {
            entries.push_back({ cur_group, l, l });
            continue;
        }
        if (ind > 0 && !entries.empty())
        {
            entries.back().text += "\n" + l;
            cont_indent = cont_indent ? std::min(cont_indent, ind) : ind;
            continue;
        }
        // about text / group description lines are free text
    }
    // expected
    std::vector<std::string> want_groups;
    for (auto& g : group_order)
    {
        bool nonempty = false;
        for (auto& i : d.items)
            nonempty = nonempty || i.group == g;
        if (nonempty)
            want_groups.push_back(g.empty() ? "arguments" : g);
    }
    if (seen_groups != want_groups)
        f.push_back({ "group-order", "group headers " + mc::jlist(seen_groups) + " expected " + mc::jlist(want_groups) });
    std::vector<const UItem*> want_entries;
    for (auto& g : group_order)
        for (auto& i : d.items)
            if (i.group == g)
                want_entries.push_back(&i);
    if (entries.size() != want_entries.size())
    {
        f.push_back({ "entry-count", std::to_string(entries.size()) + " entries in the option section, " +
                                         std::to_string(want_entries.size()) + " items declared" });
        return f;
    }
    for (size_t k = 0; k < entries.size(); k++)
    {
        auto& e = entries[k];
        auto& i = *want_entries[k];
        std::string wg = i.group.empty() ? "arguments" : i.group;
        if (e.group != wg)
            f.push_back({ "entry-in-wrong-group", "entry '" + squeeze(e.head_line).substr(0, 40) + "' under '" + e.group + "' expected '" + wg + "'" });
        // tokens of the whole entry; commas directly behind a spelling belong to the layout
        auto toks = words_of(e.text);
        size_t t = 0;
        auto strip = [](std::string w) {
            while (!w.empty() && (w.back() == ',' || w.back() == ';'))
                w.pop_back();
            return w;
        };
        bool head_ok = true;
        std::string why;
        if (!i.sh.empty())
        {
            if (t < toks.size() && strip(toks[t]) == "-" + i.sh)
                t++;
            else
            {
                head_ok = false;
                why = "short spelling -" + i.sh + " missing";
            }
        }
        if (head_ok)
        {
            std::string lg = t < toks.size() ? strip(toks[t]) : "";
            bool long_ok = lg == "--" + i.name || (i.kind == 't' && i.rev && lg == "--[no-]" + i.name);
            if (i.kind == 't' && i.rev && lg == "--" + i.name)
                long_ok = false; // a reversible toggle has to show that it can be negated
            if (long_ok)
                t++;
            else
            {
                head_ok = false;
                why = "long spelling of '" + i.name + "' missing or not in this position (found '" + lg + "')";
            }
        }
        if (head_ok && i.kind != 't')
        {
            std::string mv = i.metavar.empty() ? "ARG" : i.metavar;
            if (t < toks.size() && toks[t] == mv)
                t++;
            else
            {
                head_ok = false;
                why = "value placeholder " + mv + " missing";
            }
        }
        if (!head_ok)
        {
            f.push_back({ "entry-order-or-spelling", "entry #" + std::to_string(k) + " is '" + e.head_line.substr(0, 70) + "' but item '" + i.name + "' is expected here: " + why });
            continue;
        }
        std::vector<std::string> got(toks.begin() + t, toks.end());
        auto want = expected_words(i);
        if (got != want)
        {
            // a non-reversible toggle may or may not print its default; accept a trailing "(default: ...)"
            bool lenient = false;
            if (i.kind == 't' && !i.rev && got.size() == want.size() + 2 && got[want.size()] == "(default:")
                lenient = std::equal(want.begin(), want.end(), got.begin());
            if (!lenient)
                f.push_back({ "description-words", "entry for '" + i.name + "' right column words " + mc::jlist(got) + " expected " + mc::jlist(want) });
        }
    }
    // ---- line width: only an unbreakable word (one that cannot fit the column, length + 1 > column width) may reach
    // beyond column 80; every ordinary word has to end at or before column 80
    size_t syn_indent = 8 + d.app.size();
    size_t syn_end = 0;
    while (syn_end < lines.size() && !lines[syn_end].empty())
        syn_end++;
    for (size_t k = 0; k < lines.size(); k++)
    {
        if (lines[k].size() <= 80)
            continue;
        bool in_synopsis = k < syn_end;
        // column at which wrapped lines start: observed where possible, the documented layout otherwise
        size_t indent = in_synopsis ? std::min<size_t>(syn_indent, 79) : (cont_indent ? std::min<size_t>(cont_indent, 79) : 40);
        if (in_synopsis && syn_end > 1)
        {
            size_t ind2 = lines[1].find_first_not_of(' ');
            if (ind2 != std::string::npos && ind2 > 0)
                indent = std::min<size_t>(ind2, 79);
        }
        size_t width = 80 - indent;
        // units: blank separated; in the synopsis "<METAVAR>..." belongs to the token in front of it (a tab in the source)
        struct Unit
        {
            size_t begin, end;
        };
        std::vector<Unit> units;
        const std::string& l = lines[k];
        size_t i = 0;
        while (i < l.size())
        {
            while (i < l.size() && l[i] == ' ')
                i++;
            if (i >= l.size())
                break;
            size_t st = i;
            while (i < l.size() && l[i] != ' ')
                i++;
            if (in_synopsis && l[st] == '<' && !units.empty())
                units.back().end = i;
            else
                units.push_back({ st, i });
        }
        // the head of an entry - its spellings `-x, --name` and the value placeholder behind them - is one unit: a line break
        // between an option and its placeholder is not a layout the property asks for
        if (!in_synopsis && units.size() >= 2 && l[units[0].begin] == '-')
        {
            size_t m = 1;
            while (m < units.size() && l[units[m].begin] == '-')
                m++;
            if (m < units.size())
            {
                bool placeholder = true;
                for (size_t c = units[m].begin; c < units[m].end; c++)
                    placeholder = placeholder && (isupper(static_cast<unsigned char>(l[c])) || isdigit(static_cast<unsigned char>(l[c])) || l[c] == '_');
                if (placeholder)
                    m++;
            }
            units[0].end = units[m - 1].end;
            units.erase(units.begin() + 1, units.begin() + m);
        }
        for (auto& u : units)
        {
            size_t len = u.end - u.begin;
            bool unbreakable = len + 1 > width;
            if (!unbreakable && u.end > 80)
            {
                f.push_back({ "line-width", "line " + std::to_string(k) + " has " + std::to_string(l.size()) + " columns and the ordinary word '" +
                                                l.substr(u.begin, len) + "' ends at column " + std::to_string(u.end) + ": " + l });
                break;
            }
        }
    }
    return f;
}

static std::vector<Fail> check(const UDecl& d, int stream)
{
    std::vector<Fail> f;
    auto both = usage_pair(d, stream);
    auto& fresh = both.first;
    if (stream == 0)
        return structural(d, fresh);
    auto& other = both.second;
    if (other != fresh)
    {
        size_t p = 0;
        while (p < other.size() && p < fresh.size() && other[p] == fresh[p])
            p++;
        f.push_back({ "text-depends-on-stream", std::string("stream '") + STREAMS[stream] + "' gets a different text; first difference at offset " +
                                                    std::to_string(p) + ": fresh '" + fresh.substr(p > 20 ? p - 20 : 0, 60) + "' vs '" +
                                                    other.substr(p > 20 ? p - 20 : 0, 60) + "'" });
    }
    return f;
}

static const std::vector<std::string>& descriptions()
{
    static const std::vector<std::string> d = {
        "",
        "word",
        "two words",
        "the quick brown fox jumps over the lazy dog and then it does so again and again until the text is "
        "thirty words long which takes a few more words than one would think at first sight",
        std::string(38, 'a') + " tail",
        "head " + std::string(39, 'b') + " tail",
        "head " + std::string(40, 'c') + " tail",
        std::string(41, 'd'),
        "head " + std::string(60, 'e') + " tail words follow here",
        "tab\tseparated words",
        "x " + std::string(37, 'f') + " " + std::string(38, 'g') + " " + std::string(39, 'h'),
        // runs of blanks (two blanks after a full stop, values set off with several blanks) on nearly filled lines
        "s   seconds,  m   minutes,  h   hours,  d   days.  Two  blanks  after  the  stop.  And  more  words  follow  here  until  it  wraps  twice",
        // a word that cannot fit (a URL) followed by a lot more text
        "see https://example.org/" + std::string(50, 'u') + " for the full list of values and more text that keeps going for a while so that it has to wrap at least once more",
    };
    return d;
}

static const std::string LONGNAME = "a-forty-five-character-long-option-name-xxxxx";

int main(int argc, char** argv)
{
    auto a = mc::parse_args(argc, argv);
    if (!a.replay.empty())
    {
        auto doc = js::load(a.replay);
        const js::Value& w = doc.has("witness") ? doc.at("witness") : doc;
        UDecl d = UDecl::from(w.at("declaration"));
        int stream = static_cast<int>(w.n("stream"));
        auto f = check(d, stream);
        printf("replay C15: %s on stream '%s'\n--- text on a fresh stream ---\n%s--- end ---\n", d.cls().c_str(), STREAMS[stream],
               usage_on(d, 0).c_str());
        if (stream)
            printf("--- text on stream '%s' ---\n%s--- end ---\n", STREAMS[stream], usage_on(d, stream).c_str());
        for (auto& x : f)
            printf("  FAILED clause: %s\n    %s\n", x.clause.c_str(), x.detail.c_str());
        return f.empty() ? 0 : 1;
    }
    mc::Sharded sh;
    sh.id = "C15";
    sh.nworkers = a.jobs;
    sh.tmpdir = a.tmpdir;
    sh.deadline_s = a.deadline_s;
    bool asan = a.asan(), thorough = a.thorough();
    sh.walk = [&](mc::Ctx& ctx) {
        auto one = [&](const UDecl& d) {
            for (int stream = 0; stream < NSTREAMS; stream++)
            {
                long idx = ctx.next;
                ctx.each(
                    [&] {
                        return mc::Desc{ mc::J().raw("declaration", d.json()).n("stream", stream).str(),
                                         d.cls() + " stream=" + STREAMS[stream] };
                    },
                    [&](mc::Report& rep) {
                        rep.count("executions", stream ? 2 : 1);
                        rep.states.insert(mc::hash(d.json()));
                        rep.transitions.insert(mc::hash2(mc::hash(d.json()), stream));
                        if (d.items.size() > 1 || d.items[0].desc.size() > 20 || d.items[0].name.size() > 10)
                            rep.nontrivial.insert(mc::hash(d.json()));
                        auto fs = check(d, stream);
                        if (stream == 0)
                            rep.outcomes.insert(mc::hash(usage_on(d, 0)));
                        for (auto& f : fs)
                            rep.violation(f.clause, "C15:" + f.clause + ":" + d.cls() + (stream ? std::string(" stream=") + STREAMS[stream] : ""),
                                          mc::J().raw("declaration", d.json()).n("stream", stream).str(), f.detail, idx);
                        if (fs.empty() && stream == 0 && idx % 7919 == 0)
                            rep.sample(mc::J().raw("declaration", d.json()).s("usage_text", usage_on(d, 0)).str());
                    });
            }
        };
        // part A: single item, full attribute product
        auto& descs = descriptions();
        for (const char* app : { "prog", "an-application-name-of-thirty-chr" })
            for (int pos = 0; pos < 2; pos++)
                for (char kind : { 'o', 'm', 't' })
                    for (int ln = 0; ln < 2; ln++)
                        for (int shrt = 0; shrt < 2; shrt++)
                            for (int env = 0; env < 2; env++)
                                for (int def = 0; def < 3; def++) // none / plain words / texts containing `{}` (a placeholder to the formatter)
                                    for (int x = 0; x < 2; x++) // metavar (o, m) / reversible (t)
                                        for (size_t di = 0; di < descs.size(); di++)
                                        {
                                            if (ctx.stop())
                                                return;
                                            UDecl d;
                                            d.app = app;
                                            d.about = pos ? "about this program" : "";
                                            d.positionals = pos;
                                            UItem i;
                                            i.kind = kind;
                                            i.name = ln ? LONGNAME : "alpha";
                                            if (shrt)
                                                i.sh = "a";
                                            if (env)
                                                i.env = "VP_ALPHA";
                                            if (def)
                                            {
                                                if (kind == 't')
                                                    i.tdef = def;
                                                else
                                                {
                                                    i.has_def = true;
                                                    i.def = def == 1 ? "dflt" : "trace-{}.otf2";
                                                    i.mdef = def == 1 ? std::vector<std::string>{ "one", "two" } : std::vector<std::string>{ "{}", "{a=b}" };
                                                }
                                            }
                                            if (x)
                                            {
                                                if (kind == 't')
                                                    i.rev = true;
                                                else
                                                    i.metavar = "FILE";
                                            }
                                            i.desc = descs[di];
                                            d.items = { i };
                                            one(d);
                                        }
        // part B: 2-3 items, groups, creation orders, name permutations
        std::vector<UItem> variants;
        {
            UItem v;
            v.kind = 'o'; v.sh = "?"; v.desc = "an option";
            variants.push_back(v);
            v = UItem(); v.kind = 'm'; v.sh = "?"; v.has_def = true; v.mdef = { "p", "q" }; v.desc = "several values";
            variants.push_back(v);
            v = UItem(); v.kind = 't'; v.sh = "?"; v.desc = "a switch";
            variants.push_back(v);
            v = UItem(); v.kind = 'o'; v.env = "VP_E"; v.has_def = true; v.def = "d"; v.metavar = "N";
            v.desc = "a description that is long enough to be wrapped onto a second line of the right column";
            variants.push_back(v);
            v = UItem(); v.kind = 't'; v.rev = true; v.desc = "reversible";
            variants.push_back(v);
            v = UItem(); v.kind = 't'; v.sh = "?"; v.rev = true; v.tdef = 1;
            variants.push_back(v);
        }
        std::vector<std::vector<std::string>> pres = { {}, { "g1", "g2" }, { "g2", "g1" } };
        const char* groups[] = { "", "g1", "g2" };
        const char* names3[][3] = { { "a", "b", "c" }, { "a", "c", "b" }, { "b", "a", "c" }, { "b", "c", "a" }, { "c", "a", "b" }, { "c", "b", "a" } };
        size_t nv2 = variants.size(), nv3 = (thorough && !asan) ? variants.size() : 3;
        for (int n = 2; n <= (asan && !thorough ? 2 : 3); n++)
        {
            size_t nv = n == 2 ? nv2 : nv3;
            std::vector<size_t> vi(n, 0);
            for (;;)
            {
                for (int perm = 0; perm < 6; perm++)
                {
                    if (n == 2 && perm >= 2 && perm != 5)
                        continue;
                    for (int gm = 0; gm < (n == 2 ? 9 : 27); gm++)
                        for (auto& pre : pres)
                        {
                            if (ctx.stop())
                                return;
                            UDecl d;
                            d.pre_groups = pre;
                            int g = gm;
                            for (int k = 0; k < n; k++)
                            {
                                UItem it = variants[vi[k]];
                                it.name = names3[perm][k];
                                if (it.sh == "?")
                                    it.sh = std::string(1, static_cast<char>(toupper(it.name[0])));
                                it.group = groups[g % 3];
                                g /= 3;
                                d.items.push_back(it);
                            }
                            one(d);
                        }
                }
                int p = n - 1;
                while (p >= 0 && ++vi[p] == nv)
                    vi[p--] = 0;
                if (p < 0)
                    break;
            }
        }
        // part C, sizes: many items in several groups, long descriptions made of many words, long names / defaults /
        // environment names / metavars around the thresholds an implementation may have
        for (int nitems : { 17, 40, 70 })
            for (int ngroups : { 1, 3 })
                for (size_t dlen : { 0u, 81u, 300u, 1000u })
                {
                    UDecl d;
                    d.app = "prog";
                    d.about = "about";
                    const char* gs[] = { "", "output options", "debugging" };
                    for (int i = 0; i < nitems; i++)
                    {
                        UItem it;
                        it.kind = "omt"[i % 3];
                        it.name = "item" + std::to_string(i) + (i % 5 == 0 ? std::string(20 + i, 'n') : "");
                        std::string letters = "abcdefghijklmnopqrstuvwxyzABCDEFGHIJKLMNOPQRSTUVWXYZ0123456789#@+%:,.";
                        if (i % 4 != 3)
                            it.sh = std::string(1, letters[i % letters.size()]);
                        it.group = gs[i % ngroups];
                        if (i % 2)
                            it.env = "VP_ENV_" + std::to_string(i) + (i % 6 == 1 ? std::string(30, 'E') : "");
                        if (it.kind == 't')
                        {
                            it.tdef = i % 2;
                            it.rev = i % 4 < 2;
                        }
                        else if (i % 3 != 2)
                        {
                            it.has_def = true;
                            it.def = i % 7 == 0 ? std::string(60, 'd') : "d" + std::to_string(i);
                            it.mdef = { "m" + std::to_string(i), std::string(1 + i % 20, 'q') };
                            if (i % 2)
                                it.metavar = "FILE" + std::to_string(i);
                        }
                        // a description of dlen characters: words of 1..12 characters
                        std::string desc;
                        for (size_t w = 0; desc.size() < dlen; w++)
                            desc += (desc.empty() ? "" : " ") + std::string(1 + (w * 7 + i) % 12, static_cast<char>('a' + (w + i) % 26));
                        it.desc = desc;
                        d.items.push_back(it);
                    }
                    one(d);
                }
    };
    auto rep = sh.run();
    rep.notes["rule"] = "part A: one item over the full product kind x name length x short x env x default x metavar/reversible x 13 "
                        "descriptions (words of 38..60 chars) x 2 application names x positionals; part B: 2-3 items over 6 variants x name "
                        "permutations x group assignments x group pre-creation orders; part C: 17 / 40 / 70 items in 1 / 3 groups with descriptions of 0 / 81 / 300 / 1000 characters; each on 11 streams (incl. after a parse, after a parse that took values from the environment, from a moved parser); non-trivial = distinct "
                        "declarations with several items, a long name or a description that wraps";
    mc::write_out(a, rep);
    return 0;
}

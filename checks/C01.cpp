// C01 - the option parser never silently ignores a command-line argument.
// Engine B: every declaration of a 540-element grid x every argument vector up to a length bound over
// the relational token alphabet of that declaration; the real parser against the reference model.
#include "parser_check.hpp"

using namespace pc;

static std::vector<Decl> declarations()
{
    std::vector<Decl> out;
    for (int o = 0; o < 3; o++)
        for (int m = 0; m < 3; m++)
            for (int t1 = 0; t1 < 5; t1++)
                for (int t2 = 0; t2 < 2; t2++)
                    for (int pos = 0; pos < 3; pos++)
                        for (int greedy = 0; greedy < 2; greedy++)
                        {
                            Decl D;
                            if (o)
                                D.items.push_back(Item::opt("opt", o == 2 ? "o" : ""));
                            if (m)
                                D.items.push_back(Item::multi("multi", m == 2 ? "m" : ""));
                            if (t1)
                                D.items.push_back(Item::tog("tog", (t1 == 2 || t1 == 3) ? "t" : "",
                                                            t1 == 3 || t1 == 4));
                            if (t2)
                            {
                                // the second toggle lives in a named group (bundles then span groups)
                                auto u = Item::tog("ugg", "u");
                                u.group = "zgroup";
                                D.items.push_back(u);
                            }
                            if (m && greedy)
                                D.items[o ? 1 : 0].group = "agroup";
                            D.accepted = pos == 0 ? 0 : pos == 1 ? 1 : UNLIMITED;
                            D.greedy = greedy;
                            out.push_back(D);
                        }
    return out;
}

// tokens that stand in every relation to the declaration
static std::vector<std::string> alphabet(const Decl& D)
{
    std::vector<std::string> a = { "x", "--", "--zz", "--zz=x", "-z", "-z=x" };
    // undeclared names that extend / truncate a declared name
    if (!D.items.empty())
    {
        auto& n = D.items[0].name;
        a.push_back("--" + n + "x");
        a.push_back("--" + n + "-x=x");
        a.push_back("--" + n.substr(0, n.size() - 1));
        a.push_back("--no-" + n + "x");
    }
    bool t = D.by_short("t"), u = D.by_short("u"), o = D.by_short("o"), m = D.by_short("m");
    for (auto& i : D.items)
    {
        a.push_back("--" + i.name);
        a.push_back("--" + i.name + "=x");
        if (!i.sh.empty())
        {
            a.push_back("-" + i.sh);
            a.push_back("-" + i.sh + "=x");
        }
        if (i.kind == 't')
            a.push_back("--no-" + i.name);
    }
    // bundles over {toggle letter t, toggle letter u, option letter o / m, undeclared z}
    std::vector<std::string> letters = { "z" };
    if (t)
        letters.push_back("t");
    if (u)
        letters.push_back("u");
    if (o)
        letters.push_back("o");
    else if (m)
        letters.push_back("m");
    for (auto& x : letters)
        for (auto& y : letters)
            a.push_back("-" + x + y);
    if (t)
    {
        a.push_back("-ttt");
        a.push_back("-ttz");
        a.push_back("-tzt");
        a.push_back("-tt=x");
        if (u)
            a.push_back("-tut");
        if (o)
            a.push_back("-tot");
    }
    else if (u)
    {
        a.push_back("-uuu");
        a.push_back("-uzu");
    }
    return a;
}

static bool judged(const std::string& clause)
{
    static const char* acc[] = { "unknown-long",        "unknown-letter",       "bundle-nontoggle-letter",
                                 "bundle-with-value",   "malformed",            "too-many-positionals",
                                 "option-given-twice" };
    if (clause.rfind("accepted-but-must-reject(", 0) == 0)
    {
        for (auto a : acc)
            if (clause.find(a) != std::string::npos)
                return true;
        return false;
    }
    return clause == "toggle-count" || clause == "option-value" || clause == "multi-option-list" ||
           clause == "positionals";
}

int main(int argc, char** argv)
{
    auto a = mc::parse_args(argc, argv);
    ParserCheck chk{ "C01", judged };
    if (!a.replay.empty())
        return chk.replay(a.replay);
    auto decls = declarations();
    int n = a.thorough() ? 3 : 2;
    if (a.asan())
        n -= 1;
    auto sh = sharded(a, "C01");
    sh.walk = [&](mc::Ctx& ctx) {
        for (auto& D : decls)
        {
            auto alpha = alphabet(D);
            for_all_vectors(alpha, n, ctx, [&](const std::vector<std::string>& av) {
                long idx = ctx.next;
                ctx.each([&] { return chk.describe(D, av, {}); },
                         [&](mc::Report& rep) { chk.run_case(D, av, {}, rep, idx); });
            });
        }
    };
    auto rep = sh.run();
    // a parser object that held another declaration before (move assignment): nothing of the old declaration may
    // decide how the tokens of the new one are accounted for
    {
        auto mk = [](std::vector<Item> items) {
            Decl D;
            D.items = items;
            D.accepted = 1;
            return D;
        };
        std::vector<std::pair<Decl, Decl>> pairs = {
            // letters u / o change their meaning: toggle -> option, option -> toggle, declared -> undeclared
            { mk({ Item::tog("tog", "t"), Item::tog("ugg", "u"), Item::opt("opt", "o") }), mk({ Item::tog("tog", "t"), Item::opt("ugg", "u"), Item::tog("opt", "o") }) },
            { mk({ Item::tog("tog", "t"), Item::tog("ugg", "u"), Item::tog("zed", "z") }), mk({ Item::tog("tog", "t"), Item::opt("opt", "o") }) },
            { mk({ Item::opt("opt", "o"), Item::multi("multi", "m") }), mk({ Item::tog("opt", "o"), Item::tog("tog", "t") }) },
            { mk({}), mk({ Item::tog("tog", "t"), Item::tog("ugg", "u") }) },
        };
        std::vector<std::vector<std::string>> olds = { {}, { "-t" }, { "-tu" }, { "--zz" } };
        auto sh3 = sharded(a, "C01assign");
        sh3.prop = "C01";
        sh3.walk = [&](mc::Ctx& ctx) {
            for (auto& pr : pairs)
                for (auto& old : olds)
                    for_all_vectors(alphabet(pr.second), a.asan() ? 1 : 2, ctx, [&](const std::vector<std::string>& av) {
                        long idx = ctx.next;
                        ctx.each([&] { return chk.describe(pr.second, av, {}); },
                                 [&](mc::Report& rep) { chk.run_after_replace(pr.first, old, pr.second, av, rep, idx); });
                    });
            // sizes: a wide declaration (26 options a-z, 26 toggles A-Z in 3 groups) and long bundles: one letter that is not a
            // declared toggle hidden at the front / in the middle / at the end of a bundle of 27, 65, 257 and 1000 letters
            {
                Decl W;
                const char* groups[] = { "", "zgroup", "agroup" };
                for (int i = 0; i < 26; i++)
                {
                    auto o = Item::opt(std::string("opt-") + static_cast<char>('a' + i), std::string(1, static_cast<char>('a' + i)));
                    o.group = groups[i % 3];
                    W.items.push_back(o);
                    auto t = Item::tog(std::string("tog-") + static_cast<char>('a' + i), std::string(1, static_cast<char>('A' + i)), i % 2 == 0);
                    t.group = groups[(i + 1) % 3];
                    W.items.push_back(t);
                }
                W.accepted = 1;
                for (size_t len : { 27u, 65u, 257u, 1000u })
                    for (char odd : { 'q', '#', '\xe9', '=', '1' })
                        for (int where = 0; where < 3; where++)
                        {
                            std::string b;
                            for (size_t i = 0; i < len; i++)
                                b += static_cast<char>('A' + (i * 7) % 26);
                            size_t at = where == 0 ? 0 : where == 1 ? len / 2 : len - 1;
                            if (odd == '=' && at == 0)
                                continue; // `-=...` is a malformed token, not a bundle
                            b[at] = odd;
                            for (auto av : { std::vector<std::string>{ "-" + b }, std::vector<std::string>{ "-" + b, "value" }, std::vector<std::string>{ "--tog-a", "-" + b, "--opt-c=1" } })
                            {
                                long idx = ctx.next;
                                ctx.each([&] { return chk.describe(W, av, {}); }, [&](mc::Report& rep) { chk.run_case(W, av, {}, rep, idx); });
                            }
                        }
                // three features together: a reversible toggle that is also bound to an environment variable - the command line
                // token (`--no-tog` in particular) must be accounted for whatever the variable says
                {
                    Decl E;
                    E.items = { Item::tog("tog", "t", true).with_env("VP_T"), Item::tog("ugg", "u", true, 1).with_env("VP_U"), Item::opt("opt", "o") };
                    E.accepted = 1;
                    for (auto& env : std::vector<Env>{ {}, { { "VP_T", "1" }, { "VP_U", "0" } }, { { "VP_T", "0" }, { "VP_U", "TRUE" } }, { { "VP_T", "yes" } } })
                        for_all_vectors(alphabet(E), a.asan() ? 1 : 2, ctx, [&](const std::vector<std::string>& av) {
                            long idx = ctx.next;
                            ctx.each([&] { return chk.describe(E, av, env); }, [&](mc::Report& rep) { chk.run_case(E, av, env, rep, idx); });
                        });
                }
                // particular values: every byte value as the one letter of a short bundle that is not a declared toggle - in
                // front of, behind and between declared toggle letters (an implementation that indexes a table or a bit set
                // with the letter must not alias any of them)
                {
                    Decl T3;
                    T3.items = { Item::tog("verbose", "v"), Item::tog("quiet", "q", true), Item::tog("zero", "0"), Item::opt("opt", "o") };
                    T3.accepted = 1;
                    for (int b = 1; b < 256; b++)
                    {
                        char c = static_cast<char>(b);
                        if (c == 'v' || c == 'q' || c == '0')
                            continue;
                        for (auto tok : { std::string("-v") + c, std::string("-") + c + "v", std::string("-v") + c + "q", std::string("-0") + c, std::string("-qq") + c + "0v" })
                        {
                            if (tok[1] == '=' || tok[1] == '-')
                                continue; // `-=..` and `--..` are not bundles
                            std::vector<std::string> av = { tok };
                            long idx = ctx.next;
                            ctx.each([&] { return chk.describe(T3, av, {}); }, [&](mc::Report& rep) { chk.run_case(T3, av, {}, rep, idx); });
                        }
                    }
                }
                // long unknown names that extend a declared one, and every declared item once (all accounted for)
                std::vector<std::string> all;
                for (auto& it : W.items)
                    all.push_back(it.kind == 't' ? "-" + it.sh : "--" + it.name + "=v");
                for (auto av : { all, std::vector<std::string>{ "--tog-a" + std::string(300, 'x') }, std::vector<std::string>{ "--opt-b" + std::string(300, 'x') + "=1" },
                                 std::vector<std::string>{ "--no-tog-b" }, std::vector<std::string>{ "--no-tog-a" + std::string(40, 'y') } })
                {
                    long idx = ctx.next;
                    ctx.each([&] { return chk.describe(W, av, {}); }, [&](mc::Report& rep) { chk.run_case(W, av, {}, rep, idx); });
                }
            }
            // the parser was used before its declaration was complete (items or short names added through kept references
            // after usage() and warm-up parses), or held the neighbouring declaration before: every 9th declaration of the grid
            for (size_t di = 0; di < decls.size(); di += 9)
            {
                const Decl& D = decls[di];
                const Decl& Dprev = decls[(di + decls.size() - 1) % decls.size()];
                if (D.items.empty())
                    continue;
                for_all_vectors(alphabet(D), a.asan() ? 1 : 2, ctx, [&](const std::vector<std::string>& av) { chk.used_before(ctx, D, Dprev, av, {}); });
            }
        };
        auto rep3 = sh3.run();
        rep3.counters.erase("wall_ms");
        rep.merge(rep3);
    }
    // thorough: one token deeper on the six richest declarations (all kinds with short names, both toggles)
    int deep = 0;
    if (a.thorough() && !a.asan())
    {
        deep = n + 1;
        std::vector<Decl> rich;
        for (auto& D : decls)
            if (D.items.size() == 4 && D.by_short("o") && D.by_short("m") && D.by_short("t") && D.by_short("u") && D.items[2].rev)
                rich.push_back(D);
        auto sh2 = sharded(a, "C01deep");
        sh2.prop = "C01";
        sh2.walk = [&](mc::Ctx& ctx) {
            for (auto& D : rich)
                for_all_vectors(alphabet(D), deep, ctx, [&](const std::vector<std::string>& av) {
                    long idx = ctx.next;
                    ctx.each([&] { return chk.describe(D, av, {}); },
                             [&](mc::Report& rep) { chk.run_case(D, av, {}, rep, idx); });
                }, deep);
        };
        auto rep2 = sh2.run();
        rep2.counters.erase("wall_ms");
        rep.merge(rep2);
        rep.counters["declarations_at_deep_bound"] = rich.size();
    }
    rep.counters["bound_argv_len_deep"] = deep;
    rep.counters["bound_argv_len"] = n;
    rep.counters["declarations"] = decls.size();
    rep.notes["rule"] = "every declaration of the 540-grid x every argument vector of length <= bound over the "
                        "declaration's relational alphabet; non-trivial = distinct (declaration, token-class "
                        "sequence) containing at least one option-like token or `--`";
    mc::write_out(a, rep);
    return 0;
}

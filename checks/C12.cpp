// C12 - positionals: `--`, greedy mode, the accepted count and negative indices.
// Engine B: accepted in {0,1,2,3,unlimited} x greedy x every vector up to the bound over a 14-token alphabet
// that mixes value tokens, `--`, malformed dash tokens, declared and undeclared option spellings.
#include <cstdint>
#include <fstream>
#include <sstream>
#include <thread>
#include <unistd.h>
#include "parser_check.hpp"

using namespace pc;

static std::vector<Decl> declarations()
{
    std::vector<Decl> ds;
    size_t accs[] = { 0, 1, 2, 3, UNLIMITED };
    for (auto acc : accs)
        for (int greedy = 0; greedy < 2; greedy++)
        {
            Decl D;
            D.items = { Item::opt("opt"), Item::tog("tog", "t") };
            D.accepted = acc;
            D.greedy = greedy;
            ds.push_back(D);
        }
    return ds;
}

static const std::vector<std::string>& alphabet()
{
    static const std::vector<std::string> a = { "p",     "q",       "",   "a=b",  "--",    "-",    "---x",
                                                "-=x",   "--opt",   "--opt=v", "-t", "--zz", "- x", "--=" };
    return a;
}

static bool judged(const std::string& c)
{
    return c == "positionals" || c == "rejected-but-must-accept" ||
           c == "accepted-but-must-reject(too-many-positionals)" || c.rfind("index", 0) == 0;
}

int main(int argc, char** argv)
{
    auto a = mc::parse_args(argc, argv);
    ParserCheck chk{ "C12", judged };
    chk.on_accept = [](const Decl&, const Res& r, const nitro::options::arguments& args, std::vector<Diff>& out) {
        // every index in [-m-1, m] ; judged against the *reference* positional list
        if (!r.ok)
            return;
        int m = static_cast<int>(r.pos.size());
        for (int i = -m - 1; i <= m; i++)
        {
            bool in_range = i >= -m && i < m;
            std::string got, got2;
            bool threw = false;
            try
            {
                got = args.get(i);
                got2 = args[i];
            }
            catch (std::exception&)
            {
                threw = true;
            }
            if (!in_range)
                continue; // only memory safety is judged (sanitizer build), the statement does not define these
            const std::string& want = r.pos[i < 0 ? m + i : i];
            if (threw)
                out.push_back({ "index-in-range-throws", "get(" + std::to_string(i) + ") threw with " +
                                                            std::to_string(m) + " positionals" });
            else if (got != want || got2 != want)
                out.push_back({ "index-addresses-wrong-positional",
                                "get(" + std::to_string(i) + ")='" + got + "' operator[]='" + got2 +
                                    "' expected '" + want + "' of " + r.str() });
        }
    };
#ifdef VP_TSAN
    // free-running pass under ThreadSanitizer: two threads, each with a parser object of its own (different declarations,
    // different argument vectors).  Nothing is shared by the caller, so any report is state shared inside the library.
    if (a.replay.empty())
    {
        std::string log = a.tmpdir + "/C12.tsan." + std::to_string(getpid()) + ".log";
        FILE* lf = freopen(log.c_str(), "w", stderr);
        (void)lf;
        auto decls_t = declarations();
        long runs = 0;
        std::vector<std::vector<std::string>> avs = { { "p", "q" }, { "--", "-", "x" }, { "a", "--opt", "v", "b" }, {}, { "p", "q", "r", "s", "t" } };
        auto worker = [&](size_t first) {
            for (int it = 0; it < 40; it++)
                for (size_t d = first; d < decls_t.size(); d += 2)
                {
                    nitro::options::parser p;
                    build(p, decls_t[d]);
                    for (auto& av : avs)
                        run_on(p, decls_t[d], av);
                }
        };
        std::thread t1(worker, 0), t2(worker, 1);
        t1.join();
        t2.join();
        runs = 2 * 40;
        fflush(stderr);
        std::ifstream in(log);
        std::stringstream ss;
        ss << in.rdbuf();
        auto text = ss.str();
        long races = 0;
        for (size_t pos = text.find("WARNING: ThreadSanitizer"); pos != std::string::npos; pos = text.find("WARNING: ThreadSanitizer", pos + 1))
            races++;
        mc::Report rep;
        rep.count("executions", runs);
        rep.count("tsan_free_running_iterations", runs);
        rep.states.insert(1);
        rep.transitions.insert(1);
        rep.nontrivial.insert(1);
        rep.nontrivial.insert(2);
        if (races)
            rep.violation("data-race-between-independent-parsers", "C12:data-race", mc::J().s("pass", "tsan").str(),
                          std::to_string(races) + " ThreadSanitizer report(s) while two threads parsed with parser objects of their own; first: " + text.substr(0, 1500), 0);
        rep.notes["rule"] = "free-running ThreadSanitizer pass: two threads, independent parser objects (a detector, not the deciding exploration)";
        unlink(log.c_str());
        mc::write_out(a, rep);
        return 0;
    }
    printf("replay C12: witnesses are replayed by the plain build\n");
    return 0;
#endif
    if (!a.replay.empty())
        return chk.replay(a.replay);
    auto decls = declarations();
    auto& alpha = alphabet();
    int n = a.thorough() ? 5 : 4;
    if (a.asan())
        n -= 1;
    auto sh = sharded(a, "C12");
    sh.walk = [&](mc::Ctx& ctx) {
        for (auto& D : decls)
            for_all_vectors(alpha, n, ctx, [&](const std::vector<std::string>& av) {
                long idx = ctx.next;
                ctx.each([&] { return chk.describe(D, av, {}); },
                         [&](mc::Report& rep) { chk.run_case(D, av, {}, rep, idx); });
            });
        // second parse on one parser object after a first parse that collected positionals and then failed or succeeded
        std::vector<std::vector<std::string>> firsts = { { "p", "q", "r", "s" }, { "--", "p", "q", "r", "s" }, { "p", "--zz" },
                                                         { "p" }, { "--", "-" }, { "q", "--opt" } };
        for (auto& D : decls)
            for (auto& f : firsts)
                for_all_vectors(alpha, n - 2, ctx, [&](const std::vector<std::string>& av) {
                    long idx = ctx.next;
                    ctx.each([&] { return chk.describe(D, av, {}); },
                             [&](mc::Report& rep) { chk.run_second(D, f, {}, av, {}, rep, idx); });
                });
        // the other entry point: every vector of <= 3 tokens through parse(std::vector<user_input>) (the checking constructor
        // accepts every value token - the empty string and `=x` included - and rejects malformed dash tokens)
        for (auto& D : decls)
            for_all_vectors(alpha, a.asan() ? 2 : 3, ctx, [&](const std::vector<std::string>& av) {
                long idx = ctx.next;
                ctx.each([&] { return chk.describe_vector_entry(D, av, {}); }, [&](mc::Report& rep) { chk.run_vector_entry(D, av, {}, rep, idx); });
            });
        // a huge but finite accepted count ("practically unlimited") behaves like any other count that is not exceeded
        for (auto& D0 : decls)
        {
            if (D0.accepted != UNLIMITED)
                continue;
            for (size_t big : { size_t(1000000), size_t(1) << 30, size_t(2147483647), size_t(4294967295u), size_t(1) << 40, static_cast<size_t>(PTRDIFF_MAX) })
            {
                Decl D = D0;
                D.accepted = big;
                for (auto av : { std::vector<std::string>{}, std::vector<std::string>{ "p", "q", "r" }, std::vector<std::string>{ "--", "-", "p" } })
                {
                    long idx = ctx.next;
                    ctx.each([&] { return chk.describe(D, av, {}); }, [&](mc::Report& rep) { chk.run_case(D, av, {}, rep, idx); });
                }
            }
        }
        // sizes: many positionals (beyond a narrow counter / index type), exactly at and one above a large accepted count
        for (auto& D0 : decls)
        {
            if (D0.accepted != UNLIMITED)
                continue;
            for (size_t cnt : { 127u, 128u, 255u, 256u, 257u, 1000u, 65537u })
            {
                if (a.asan() && cnt > 1000)
                    continue;
                std::vector<std::string> many;
                for (size_t i = 0; i < cnt; i++)
                    many.push_back("p" + std::to_string(i));
                auto sep = many;
                sep.insert(sep.begin() + cnt / 2, "--");
                Decl exact = D0, tight = D0;
                exact.accepted = static_cast<int>(cnt);
                tight.accepted = static_cast<int>(cnt) - 1;
                for (auto& pr : std::vector<std::pair<Decl, std::vector<std::string>>>{ { D0, many }, { D0, sep }, { exact, many }, { tight, many }, { tight, sep } })
                {
                    long idx = ctx.next;
                    ctx.each([&] { return chk.describe(pr.first, pr.second, {}); },
                             [&](mc::Report& rep) { chk.run_case(pr.first, pr.second, {}, rep, idx); });
                }
            }
        }
        // ramp: EVERY count of positionals from 4 to 1100 (300 under ASan) - unlimited, exactly the accepted count, one above it.
        // A complete range instead of a list of suspicious sizes: a threshold at 10, 100, 1000 or anywhere between is inside.
        for (auto& D0 : decls)
        {
            if (D0.accepted != UNLIMITED)
                continue;
            std::vector<std::string> many = { "p0", "p1", "p2" };
            for (size_t cnt = 4; cnt <= (a.asan() ? 300u : 1100u); cnt++)
            {
                many.push_back("p" + std::to_string(cnt - 1));
                Decl exact = D0, tight = D0;
                exact.accepted = static_cast<int>(cnt);
                tight.accepted = static_cast<int>(cnt) - 1;
                for (auto* d : { &D0, &exact, &tight })
                {
                    long idx = ctx.next;
                    ctx.each([&] { return chk.describe(*d, many, {}); }, [&](mc::Report& rep) { chk.run_case(*d, many, {}, rep, idx); });
                }
            }
        }
        // the parser object held a declaration with the opposite greedy mode and another accepted count before (move
        // assignment), or was used before its options were declared
        for (auto& D : decls)
        {
            Decl Dprev = D;
            Dprev.greedy = !D.greedy;
            Dprev.accepted = D.accepted == 1 ? 2 : 1;
            for_all_vectors(alpha, a.asan() ? 2 : 3, ctx, [&](const std::vector<std::string>& av) { chk.used_before(ctx, D, Dprev, av, {}); });
        }
    };
    auto rep = sh.run();
    int deep = 0;
    if (a.thorough() && !a.asan())
    {
        // one token deeper for the unlimited declarations (greedy off / on)
        deep = n + 1;
        auto sh2 = sharded(a, "C12deep");
        sh2.prop = "C12";
        sh2.walk = [&](mc::Ctx& ctx) {
            for (auto& D : decls)
                if (D.accepted == UNLIMITED || D.accepted == 2)
                    for_all_vectors(alpha, deep, ctx, [&](const std::vector<std::string>& av) {
                        long idx = ctx.next;
                        ctx.each([&] { return chk.describe(D, av, {}); },
                                 [&](mc::Report& rep) { chk.run_case(D, av, {}, rep, idx); });
                    }, deep);
        };
        auto rep2 = sh2.run();
        rep2.counters.erase("wall_ms");
        rep.merge(rep2);
    }
    rep.counters["bound_argv_len_deep_on_4_declarations"] = deep;
    rep.counters["bound_argv_len"] = n;
    rep.counters["declarations"] = decls.size();
    rep.counters["alphabet_tokens"] = alpha.size();
    rep.notes["rule"] = "accepted in {0,1,2,3,unlimited} x greedy on/off x every vector of length <= bound over the "
                        "14-token alphabet; for every accepted parse every index in [-m-1, m]; non-trivial = distinct "
                        "(declaration, token-class sequence) with an option-like, malformed or `--` token";
    mc::write_out(a, rep);
    return 0;
}

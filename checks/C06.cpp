// C06 - fixed_vector stays inside its storage and never exposes unfilled slots.
// Engine A (see fv.hpp / fv_explore.hpp): BFS to a fixpoint over all constructor / append / insert / emplace / erase /
// pop / checked-access / copy / move / assign operations with in-range and out-of-range arguments, for a copyable and a
// move-only element type, then every position at which an element operation can throw.  Clauses owned here: size <=
// capacity, capacity fixed, unsatisfiable operations throw, failed single-element operations leave the container
// unchanged, no unfilled slot visible, no element leaked or destroyed twice, moved-from containers stay usable;
// memory safety through the ASan+UBSan build and fork isolation.
#include "fv_explore.hpp"
#include "fv_pod.hpp"

template <typename T>
static void run(const mc::Args& a, const char* tn, int max_cap, mc::Report& total, bool& exhaustive)
{
    fv::Explorer<T> ex;
    ex.args = a;
    if (a.deadline_s > 0)
        ex.args.deadline_s = a.deadline_s / 3; // three element types share the budget
    ex.cfg.owner = "C06";
    ex.cfg.type_name = tn;
    ex.cfg.max_cap = max_cap;
    ex.cfg.nvalues = 2;
    ex.cfg.faults = true;
    ex.run();
    ex.long_traces(ex.total);
    exhaustive = exhaustive && ex.exhaustive;
    ex.total.counters[std::string("concrete_states_") + tn] = ex.states.size();
    ex.total.counters[std::string("abstract_states_") + tn] = ex.reps.size();
    ex.total.counters.erase("concrete_states");
    ex.total.counters.erase("abstract_states");
    total.merge(ex.total);
}

int main(int argc, char** argv)
{
    auto a = mc::parse_args(argc, argv);
    if (!a.replay.empty())
    {
        auto doc = js::load(a.replay);
        const js::Value& w = doc.has("witness") ? doc.at("witness") : doc;
        if (w.has("pod") || w.has("ramp_length"))
        {
            mc::Report r;
            fvpod::all("C06", r, false);
            for (auto& v : r.violations)
                printf("  FAILED clause: %s\n    %s\n", v.second.clause.c_str(), v.second.detail.c_str());
            if (r.violations.empty())
                printf("replay C06 (trivially copyable elements): conforms\n");
            return r.violations.empty() ? 0 : 1;
        }
        if (w.s("type") == "CopyOnly")
        {
            fv::Explorer<fv::CopyOnly> ex;
            ex.cfg.owner = "C06";
            ex.cfg.type_name = "CopyOnly";
            return ex.replay(w);
        }
        if (w.s("type") == "MoveOnly")
        {
            fv::Explorer<fv::MoveOnly> ex;
            ex.cfg.owner = "C06";
            ex.cfg.type_name = "MoveOnly";
            return ex.replay(w);
        }
        fv::Explorer<fv::Tracked> ex;
        ex.cfg.owner = "C06";
        return ex.replay(w);
    }
    int cap = a.thorough() ? 5 : 3;
    mc::Report total;
    bool exhaustive = true;
    double t0 = mc::now_s();
    run<fv::Tracked>(a, "Tracked", cap, total, exhaustive);
    run<fv::MoveOnly>(a, "MoveOnly", cap, total, exhaustive);
    run<fv::CopyOnly>(a, "CopyOnly", std::min(cap, 4), total, exhaustive);
    fvpod::all("C06", total, a.asan());
    total.counters["bound_max_capacity"] = cap;
    total.counters["bound_values"] = 2;
    total.counters["wall_ms"] = static_cast<long long>((mc::now_s() - t0) * 1000);
    if (!exhaustive)
        total.count("capped");
    total.notes["rule"] = "BFS to a fixpoint over concrete states (capacity, size, raw contents of all slots) of fixed_vector<Tracked>, "
                          "fixed_vector<MoveOnly> and fixed_vector<CopyOnly (not move-assignable)> with capacities 0..bound over 2 values; every operation of the alphabet with every "
                          "in-range and out-of-range argument from every state; copy/move assignment over all pairs of abstract-state "
                          "representatives; then every element-operation throw position of every (state, operation); every transition "
                          "is distinct and non-trivial (distinct (state, operation, fault position))";
    total.nontrivial = total.transitions;
    mc::write_out(a, total);
    return 0;
}

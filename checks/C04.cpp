// C04 - bad user input always ends in the user-input error, under exact conditions.
// Engine B: 12 declarations x every argument vector up to the bound over a byte-level 46-token alphabet
// (whole malformed family), x environments for the env-bound declarations, plus single-token stress cases.
// Oracle: totality (returns or throws exactly parsing_error; crashes / hangs / sanitizer reports are
// attributed by the fork pool) and the exact accept/reject boundary of the reference model.
#include "parser_check.hpp"

using namespace pc;

static std::vector<Decl> declarations()
{
    std::vector<Decl> ds;
    auto mk = [&](std::vector<Item> items, size_t acc, bool greedy) {
        Decl D;
        D.items = items;
        D.accepted = acc;
        D.greedy = greedy;
        ds.push_back(D);
    };
    mk({ Item::opt("opt", "o"), Item::tog("tog", "t", true), Item::tog("ugg", "u"), Item::multi("multi", "m") }, 2, false);
    mk({ Item::opt("opt", "o"), Item::tog("tog", "t", true), Item::tog("ugg", "u"), Item::multi("multi", "m") }, UNLIMITED, true);
    mk({ Item::opt("opt", "", false) }, 0, false);
    mk({ Item::opt("opt", "o", false).with_env("VP_O"), Item::tog("tog", "t").with_env("VP_T"),
         Item::multi("multi", "m", false).with_env("VP_M") }, 1, false);
    mk({ Item::opt("opt"), Item::multi("multi"), Item::tog("tog", "", true) }, 1, false);
    mk({ Item::tog("tog", "t"), Item::tog("ugg", "u"), Item::tog("vee", "v", true) }, 0, false);
    mk({ Item::opt("opt", "o", false).with_def("dflt") }, 0, false);
    mk({}, UNLIMITED, false);
    mk({}, 0, false);
    mk({ Item::multi("multi", "m", false) }, 2, true);
    mk({ Item::tog("tog", "t", true, 3).with_env("VP_T"), Item::opt("opt", "o").with_env("VP_O") }, 0, false);
    mk({ Item::opt("opt", "o"), Item::opt("out", "p", false) }, 1, false);
    // short names whose order is the reverse of the long names' order (tog < ugg < vee by name, z > t > a by letter)
    mk({ Item::tog("tog", "z"), Item::tog("ugg", "t", true), Item::tog("vee", "a"), Item::opt("opt", "u") }, 1, false);
    return ds;
}

static const std::vector<std::string>& alphabet()
{
    static const std::vector<std::string> a = {
        "x",        "",          "--",         "-",         "a=b",       "=x",        "---",      "---x",
        "-=",       "-=x",       "--=x",       "--no-",     "--no-o",    "--no-tog",  "--no-tog=1", "--no-ugg",
        "--no-opt", "--opt",     "--opt=v",    "--opt=",    "--opt==",   "--opt=a\nb", "-o",      "-o=",
        "-o=a=b",   "-oo",       "-ot",        "-to",       "-t",        "-tt",       "-tu",      "-tz",
        "-t-",      "-t=1",      "-tu=1",      "--tog",     "--tog=1",   "--ugg",     "-z",       "--zz",
        "--zz=1",   "-m",        "--multi=x",  "- ",        "-\xff",     "--\n",      "-p",       "--out=1",
        "--optx",   "--op",      "--opt-x=1",
        "-t\xff",   "-\xc3\xa4", "--t\xc3\xa4",
        // particular texts: a token that looks like a placeholder of the library's own formatter (error messages echo tokens)
        "{}",       "a{}b",      "--{}",       "--opt={}",  "-{}",       "%s%n"
    };
    return a;
}

static const std::vector<std::string>& env_values()
{
    // "\x01" stands for "unset"
    static const std::vector<std::string> v = { "\x01", "", "x", "-5", "--a=b", "-", "a;b", "TRUE", "maybe", "0" };
    return v;
}

static std::vector<Env> environments(const Decl& D, bool full)
{
    std::vector<std::string> vars;
    for (auto& i : D.items)
        if (!i.env.empty())
            vars.push_back(i.env);
    std::vector<Env> out;
    if (vars.empty())
    {
        out.push_back({});
        return out;
    }
    auto& vals = env_values();
    if (full)
    {
        std::vector<size_t> ix(vars.size(), 0);
        for (;;)
        {
            Env e;
            for (size_t k = 0; k < vars.size(); k++)
                if (vals[ix[k]] != "\x01")
                    e[vars[k]] = vals[ix[k]];
            out.push_back(e);
            int p = static_cast<int>(vars.size()) - 1;
            while (p >= 0 && ++ix[p] == vals.size())
                ix[p--] = 0;
            if (p < 0)
                break;
        }
    }
    else
    {
        // a handful: all unset, all valid, one invalid each
        out.push_back({});
        Env valid;
        for (auto& i : D.items)
            if (!i.env.empty())
                valid[i.env] = i.kind == 't' ? "TRUE" : "x";
        out.push_back(valid);
        for (auto& i : D.items)
            if (!i.env.empty())
            {
                Env e = valid;
                e[i.env] = i.kind == 't' ? "maybe" : "-5";
                out.push_back(e);
            }
    }
    return out;
}

static bool judged(const std::string& clause)
{
    return clause == "foreign-exception" || clause == "rejected-but-must-accept" ||
           clause.rfind("accepted-but-must-reject(", 0) == 0;
}

int main(int argc, char** argv)
{
    auto a = mc::parse_args(argc, argv);
    ParserCheck chk{ "C04", judged, true };
    if (!a.replay.empty())
        return chk.replay(a.replay);
    auto decls = declarations();
    auto& alpha = alphabet();
    int n = a.thorough() ? 3 : 3;
    int n_env_full = 1; // vector length under the full environment product
    if (a.asan())
        n = a.thorough() ? 3 : 2;
    int n_deep = (a.thorough() && !a.asan()) ? 4 : 0; // on the first 4 declarations
    auto sh = sharded(a, "C04");
    sh.case_timeout_s = 10;
    sh.walk = [&](mc::Ctx& ctx) {
        auto one = [&](const Decl& D, const std::vector<std::string>& av, const Env& env) {
            long idx = ctx.next;
            ctx.each([&] { return chk.describe(D, av, env); },
                     [&](mc::Report& rep) { chk.run_case(D, av, env, rep, idx); });
        };
        // (1) stress: single very long tokens (each alone and followed by a value)
        for (auto& D : decls)
        {
            if (ctx.stop())
                break;
            std::vector<std::string> stress = {
                "-" + std::string(1000, 't'),
                "-" + std::string(1000, 'z'),
                "--opt=" + std::string(4096, 'v'),
                "--" + std::string(4096, 'n'),
                std::string(4096, 'p'),
                "-o=" + std::string(4096, '='),
                std::string(3000, '-'),
                "--no-" + std::string(2000, 'g'),
                // very long tokens (a recursive matcher would exhaust the stack on these)
                "-" + std::string(200000, 't'),
                "--opt=" + std::string(200000, 'v'),
                "-o=" + std::string(200000, 'v'),
                "--" + std::string(200000, 'n'),
                "-" + std::string(100000, 'z') + "=" + std::string(100000, 'v'),
            };
            for (size_t n : { 60u, 64u, 65u, 70u, 90u, 300u })
                for (auto val : { "", "1", "on", "0123456789abcdef", "0123456789abcdefg" })
                {
                    stress.push_back("--" + std::string(n, 'x') + "=" + val);
                    stress.push_back("-" + std::string(n, 'v') + "=" + val);
                    stress.push_back(std::string(n, 'p') + "/key=" + val);
                    stress.push_back("---" + std::string(n, 'y') + "=" + val);
                    stress.push_back("--opt" + std::string(n, 'z') + "=" + val);
                }
            // ramp: EVERY token length 1..300 for an unknown long name and for a (possibly surplus) positional - a complete
            // range, so a limit in the code that builds the error message (48, 57, 80 columns ...) is inside
            for (size_t n = 1; n <= 300; n++)
            {
                stress.push_back("--" + std::string(n, 'x'));
                stress.push_back(std::string(n, 'p'));
            }
            std::string distinct = "-";
            for (int c = 1; c < 256; c++)
                if (c != '=' && c != '-')
                    distinct += static_cast<char>(c);
            for (int rep = 0; rep < 4; rep++)
                stress.push_back(distinct + std::string(rep * 250, 'u'));
            for (auto& t : stress)
                for (auto& env : environments(D, false))
                {
                    one(D, { t }, env);
                    one(D, { t, "x" }, env);
                    one(D, { "--", t }, env);
                    one(D, { "x", "y", "z", t }, env); // behind more positionals than most declarations accept
                }
            // the same stress tokens through the other entry point (user_input's checking constructor + parse(vector))
            for (auto& t : stress)
                for (auto av : { std::vector<std::string>{ t }, std::vector<std::string>{ t, "x" }, std::vector<std::string>{ "--", t } })
                {
                    long idx = ctx.next;
                    ctx.each([&] { return chk.describe_vector_entry(D, av, {}); }, [&](mc::Report& rep) { chk.run_vector_entry(D, av, {}, rep, idx); });
                }
        }
        // (1c) every vector of <= 2 tokens through parse(std::vector<user_input>)
        for (auto& D : decls)
            for_all_vectors(alpha, 2, ctx, [&](const std::vector<std::string>& av) {
                long idx = ctx.next;
                ctx.each([&] { return chk.describe_vector_entry(D, av, {}); }, [&](mc::Report& rep) { chk.run_vector_entry(D, av, {}, rep, idx); });
            });
        // (1b) stress: very long argument vectors (every one has a definite reference verdict)
        for (auto& D : decls)
        {
            if (ctx.stop())
                break;
            std::vector<std::vector<std::string>> longs;
            longs.push_back(std::vector<std::string>(1000, "-t"));
            longs.push_back(std::vector<std::string>(1000, "x"));
            {
                std::vector<std::string> v;
                for (int i = 0; i < 500; i++)
                {
                    v.push_back("-m");
                    v.push_back("v" + std::to_string(i));
                }
                longs.push_back(v);
            }
            {
                std::vector<std::string> v = { "--" };
                for (int i = 0; i < 1000; i++)
                    v.push_back(i % 2 ? "--opt" : "-");
                longs.push_back(v);
            }
            {
                std::vector<std::string> v(999, "--tog");
                v.push_back("--no-tog");
                longs.push_back(v);
            }
            for (auto& av : longs)
                one(D, av, {});
        }
        // (2) all vectors up to n, small environment set
        for (auto& D : decls)
            for (auto& env : environments(D, false))
                for_all_vectors(alpha, n, ctx, [&](const std::vector<std::string>& av) { one(D, av, env); });
        // (3) full environment product, short vectors
        for (auto& D : decls)
        {
            bool has_env = false;
            for (auto& i : D.items)
                has_env = has_env || !i.env.empty();
            if (!has_env)
                continue;
            for (auto& env : environments(D, true))
                for_all_vectors(alpha, n_env_full, ctx,
                                [&](const std::vector<std::string>& av) { one(D, av, env); });
        }
        // (3b) two parses on one parser object: the second must still hit the exact boundary
        {
            std::vector<std::vector<std::string>> firsts = { {}, { "--opt=1" }, { "-t" }, { "--zz" }, { "--", "a", "b", "c" },
                                                             { "x" }, { "--opt" }, { "--no-tog" }, { "-m", "1" },
                                                             { "--opt=1", "-t", "--zz" }, { "-m", "1", "--opt" }, { "--opt=1", "--opt=2" } };
            for (auto& D : decls)
                for (auto& env : environments(D, false))
                    for (auto& f : firsts)
                        for_all_vectors(alpha, a.asan() ? 1 : 2, ctx, [&](const std::vector<std::string>& av) {
                            long idx = ctx.next;
                            ctx.each([&] { return chk.describe(D, av, env); },
                                     [&](mc::Report& rep) { chk.run_second(D, f, env, av, env, rep, idx); });
                        });
        }
        // (3c) incremental declaration through kept group references after the parser has been used once
        {
            Decl G = decls[0];
            G.items[1].group = "debug"; // toggle tog
            G.items[3].group = "build"; // multi-option
            std::vector<Decl> ds = { decls[0], G, decls[5], decls[11] };
            for (auto& D : ds)
                for (size_t k = 0; k < D.items.size(); k++)
                    for_all_vectors(alpha, a.asan() ? 1 : 2, ctx, [&](const std::vector<std::string>& av) {
                        long idx = ctx.next;
                        ctx.each([&] { return chk.describe(D, av, {}); },
                                 [&](mc::Report& rep) { chk.run_incremental(D, k, av, {}, rep, idx); });
                    });
            // (3d) short names set after the first use, and the parser object re-used through move assignment
            for (size_t di = 0; di < ds.size(); di++)
                for_all_vectors(alpha, a.asan() ? 1 : 2, ctx, [&](const std::vector<std::string>& av) { chk.used_before(ctx, ds[di], ds[(di + 1) % ds.size()], av, {}); });
        }
        // (4) thorough: one token deeper on the four richest declarations
        if (n_deep)
            for (size_t d = 0; d < 4; d++)
                for_all_vectors(alpha, n_deep, ctx,
                                [&](const std::vector<std::string>& av) { one(decls[d], av, {}); }, n_deep);
    };
    auto rep = sh.run();
    rep.counters["bound_argv_len"] = n;
    rep.counters["bound_argv_len_deep_on_4_declarations"] = n_deep;
    rep.counters["declarations"] = decls.size();
    rep.counters["alphabet_tokens"] = alpha.size();
    rep.notes["rule"] = "12 declarations x every vector of length <= bound over the 54-token byte-level alphabet x "
                        "environments, plus long-token stress cases; non-trivial = distinct (declaration, token-class "
                        "sequence, environment class) with an option-like or malformed token or a bound environment";
    mc::write_out(a, rep);
    return 0;
}

// C16 - hashing agrees with equality, and comparison with the member tuple.
// Engine B: exhaustive grids of member tuples; ALL pairs and ALL triples.  Types: a value type with the
// tuple-comparison mix-in over (int8, string, double incl. signed zeros), one with two same-typed members, one with a
// float and mixed integer widths, nested tuple<pair<int,string>, variant<int,string>>, unique_ptr / shared_ptr.
// Also every two-step history (hash, change members in place, hash again): the hash must follow the members.
#include "../engine/json.hpp"
#include <cstdint>
#include <cstdlib>
#include <cstring>
#include <new>
#include <limits>
#include "../engine/mc.hpp"

#include <nitro/lang/hash.hpp>
#include <nitro/lang/tuple_operators.hpp>
#include <nitro/lang/unordered.hpp>

#include <climits>
#include <cmath>
#include <cstdint>
#include <functional>
#include <set>
#include <tuple>
#include <variant>

struct V3 : nitro::lang::tuple_operators<V3>
{
    std::int8_t a;
    std::string b;
    double c;
    V3(std::int8_t a_, std::string b_, double c_) : a(a_), b(std::move(b_)), c(c_)
    {
    }
    auto as_tuple()
    {
        return std::tie(a, b, c);
    }
    std::string str() const
    {
        return "(" + std::to_string(a) + ",'" + (b.size() > 12 ? b.substr(0, 6) + "...(" + std::to_string(b.size()) + " bytes)" : b) + "'," + (std::signbit(c) ? "-" : "+") + std::to_string(std::fabs(c)) + ")";
    }
};
struct P2 : nitro::lang::tuple_operators<P2>
{
    int x, y;
    P2(int x_, int y_) : x(x_), y(y_)
    {
    }
    auto as_tuple()
    {
        return std::tie(x, y);
    }
    std::string str() const
    {
        return "(" + std::to_string(x) + "," + std::to_string(y) + ")";
    }
};
struct W4 : nitro::lang::tuple_operators<W4>
{
    float f;
    std::int16_t s;
    std::uint64_t u;
    bool flag;
    std::uint32_t w;
    W4(float f_, std::int16_t s_, std::uint64_t u_, bool fl, std::uint32_t w_ = 0) : f(f_), s(s_), u(u_), flag(fl), w(w_)
    {
    }
    auto as_tuple()
    {
        return std::tie(f, s, u, flag, w);
    }
    std::string str() const
    {
        return std::string("(") + (std::signbit(f) ? "-" : "+") + std::to_string(std::fabs(f)) + "," + std::to_string(s) + "," + std::to_string(u) + "," + (flag ? "T" : "F") + "," + std::to_string(w) + ")";
    }
};

struct Fail
{
    std::string clause, detail;
};

template <typename T>
static int lex3(const T& x, const T& y); // -1, 0, 1 by hand-written member comparison

template <typename A>
static int cmp(const A& a, const A& b)
{
    return a < b ? -1 : (b < a ? 1 : 0);
}
template <>
int lex3<V3>(const V3& x, const V3& y)
{
    if (int c = cmp(x.a, y.a))
        return c;
    if (int c = cmp(x.b, y.b))
        return c;
    return cmp(x.c, y.c);
}
template <>
int lex3<P2>(const P2& x, const P2& y)
{
    if (int c = cmp(x.x, y.x))
        return c;
    return cmp(x.y, y.y);
}
template <>
int lex3<W4>(const W4& x, const W4& y)
{
    if (int c = cmp(x.f, y.f))
        return c;
    if (int c = cmp(x.s, y.s))
        return c;
    if (int c = cmp(x.u, y.u))
        return c;
    if (int c = cmp(x.flag, y.flag))
        return c;
    return cmp(x.w, y.w);
}

static std::vector<V3> grid_v3(bool big)
{
    std::vector<V3> g;
    std::vector<int> as = { -1, 0, 1 };
    // strings: short ones; one a prefix of the other with length differences of 137 and 256; first bytes more than 127 apart;
    // equal up to an embedded NUL and different behind it
    std::vector<std::string> bs = { "", "a", "b", "a" + std::string(137, 'x'), "a" + std::string(256, 'x'), "\xc3\x84rger", "Apfel",
                                    std::string("ab\0cd", 5), std::string("ab\0ce", 5) };
    std::vector<double> cs = { -0.0, 0.0, 1.0 };
    if (big)
    {
        as.push_back(127);
        bs.push_back("ab");
        cs.push_back(-1.5);
    }
    for (auto a : as)
        for (auto& b : bs)
            for (auto c : cs)
                g.emplace_back(static_cast<std::int8_t>(a), b, c);
    return g;
}
static std::vector<P2> grid_p2(bool big)
{
    // values more than 2^31 apart are in the grid on purpose (subtraction-based comparisons wrap there)
    std::vector<P2> g;
    std::vector<int> vals = { INT_MIN, -1, 0, 2, INT_MAX };
    if (big)
        vals.push_back(1);
    for (int x : vals)
        for (int y : vals)
            g.emplace_back(x, y);
    return g;
}
static std::vector<W4> grid_w4(bool big)
{
    std::vector<W4> g;
    std::vector<float> fs = { -0.0f, 0.0f, 2.5f };
    std::vector<int> ss = { -1, 0, 1 };
    std::vector<std::uint64_t> us = { 0, 1, 1ull << 40 };
    if (big)
        fs.push_back(-2.5f);
    for (auto f : fs)
        for (auto s : ss)
            for (auto u : us)
                for (int fl = 0; fl < 2; fl++)
                    for (std::uint32_t w : { 0u, 0x80000001u })
                        g.emplace_back(f, static_cast<std::int16_t>(s), u, fl != 0, w);
    return g;
}

// ---- all pairs / triples of one mix-in type
template <typename T>
static void check_type(const std::string& tn, const std::vector<T>& g, size_t i, std::vector<Fail>& f, mc::Report& rep)
{
    const T& x = g[i];
    size_t hx = nitro::lang::hash(x);
    if (hx != x.hash() || hx != nitro::lang::hash_wrapper<T>()(x))
        f.push_back({ "hash-entry-points-disagree", tn + x.str() });
    for (size_t j = 0; j < g.size(); j++)
    {
        const T& y = g[j];
        int want = lex3(x, y);
        rep.count("executions");
        rep.transitions.insert(mc::hash(tn + std::to_string(i) + "," + std::to_string(j)));
        bool eq = x == y, ne = x != y, lt = x < y, gt = x > y, le = x <= y, ge = x >= y;
        if (eq != (want == 0) || ne != (want != 0) || lt != (want < 0) || gt != (want > 0) || le != (want <= 0) || ge != (want >= 0))
            f.push_back({ "comparison-differs-from-lexicographic-member-comparison",
                          tn + " " + x.str() + " vs " + y.str() + ": ==" + std::to_string(eq) + " !=" + std::to_string(ne) + " <" + std::to_string(lt) + " >" +
                              std::to_string(gt) + " <=" + std::to_string(le) + " >=" + std::to_string(ge) + " but members compare " + std::to_string(want) });
        if (int(lt) + int(eq) + int(gt) != 1)
            f.push_back({ "not-exactly-one-of-less-equal-greater", tn + " " + x.str() + " vs " + y.str() });
        if (eq && hx != nitro::lang::hash(y))
            f.push_back({ "equal-values-hash-differently", tn + " " + x.str() + " == " + y.str() + " but the hashes differ" });
        for (size_t k = 0; k < g.size(); k++)
        {
            const T& z = g[k];
            if (x < y && y < z && !(x < z))
                f.push_back({ "order-not-transitive", tn + " " + x.str() + " < " + y.str() + " < " + z.str() });
            if (x == y && y == z && !(x == z))
                f.push_back({ "equality-not-transitive", tn + " " + x.str() + " " + y.str() + " " + z.str() });
        }
    }
}

// sensitivity: among pairs differing in exactly one member position, not all collide and at most 5 % do
template <typename T, typename DiffPos>
static void check_sensitivity(const std::string& tn, const std::vector<T>& g, int positions, DiffPos diffpos, std::vector<Fail>& f)
{
    for (int pos = 0; pos < positions; pos++)
    {
        long pairs = 0, coll = 0;
        for (size_t i = 0; i < g.size(); i++)
            for (size_t j = 0; j < g.size(); j++)
                if (!(g[i] == g[j]) && diffpos(g[i], g[j]) == pos)
                {
                    pairs++;
                    coll += nitro::lang::hash(g[i]) == nitro::lang::hash(g[j]);
                }
        if (pairs && (coll == pairs || coll * 20 > pairs))
            f.push_back({ "hash-ignores-a-member", tn + ": of " + std::to_string(pairs) + " pairs differing only in member #" + std::to_string(pos) + ", " +
                                                       std::to_string(coll) + " have equal hashes" });
    }
}

// two-step histories on one object: hash, change the members in place, hash again
template <typename T>
static void check_mutation(const std::string& tn, const std::vector<T>& g, size_t i, std::vector<Fail>& f, mc::Report& rep)
{
    for (size_t j = 0; j < g.size(); j++)
        for (int how = 0; how < 3; how++)
        {
            T obj = g[i];
            size_t h1 = nitro::lang::hash(obj);
            nitro::lang::unordered_set<T> warm;
            warm.insert(obj); // the object has been hashed as a key, too
            if (how == 0)
                obj.as_tuple() = T(g[j]).as_tuple(); // member-wise through the tuple of references
            else if (how == 1)
            {
                T tmp = g[j];
                auto refs = obj.as_tuple(); // a named tuple of references into obj
                refs = tmp.as_tuple();
            }
            else
            {
                T copy = obj; // a copy made after hashing, then changed
                copy.as_tuple() = T(g[j]).as_tuple();
                obj.as_tuple() = copy.as_tuple();
            }
            rep.count("executions");
            rep.transitions.insert(mc::hash(tn + "mut" + std::to_string(i) + "," + std::to_string(j) + "," + std::to_string(how)));
            T fresh = g[j];
            if (!(obj == fresh))
                f.push_back({ "harness", tn + " mutation did not produce the target value" });
            else if (nitro::lang::hash(obj) != nitro::lang::hash(fresh))
                f.push_back({ "hash-does-not-follow-the-members",
                              tn + ": object hashed as " + g[i].str() + " (hash " + std::to_string(h1) + "), then changed in place to " + g[j].str() +
                                  ": it compares equal to a fresh " + fresh.str() + " but hashes differently" });
            else
            {
                nitro::lang::unordered_set<T> s;
                s.insert(obj);
                if (!s.count(fresh))
                    f.push_back({ "hash-container-misses-an-inserted-key", tn + ": set built from the changed object does not find the equal fresh key " + fresh.str() });
            }
        }
}

template <typename T>
static void check_containers(const std::string& tn, const std::vector<T>& g, std::vector<Fail>& f)
{
    // insert every second grid value (twice); every inserted key must be found, no other grid key, size = distinct keys
    nitro::lang::unordered_set<T> s;
    nitro::lang::unordered_map<T, int> m;
    std::vector<const T*> in, out;
    for (size_t i = 0; i < g.size(); i++)
        ((i % 2 == 0) ? in : out).push_back(&g[i]);
    for (int round = 0; round < 2; round++)
        for (size_t k = 0; k < in.size(); k++)
        {
            s.insert(*in[k]);
            m[*in[k]] = static_cast<int>(k);
        }
    size_t distinct = 0;
    for (size_t a = 0; a < in.size(); a++)
    {
        bool dup = false;
        for (size_t b = 0; b < a; b++)
            dup = dup || lex3(*in[a], *in[b]) == 0;
        distinct += !dup;
    }
    if (s.size() != distinct || m.size() != distinct)
        f.push_back({ "hash-container-size-differs-from-distinct-keys", tn + ": set " + std::to_string(s.size()) + " map " + std::to_string(m.size()) + " distinct " + std::to_string(distinct) });
    for (auto p : in)
        if (!s.count(*p) || !m.count(*p))
            f.push_back({ "hash-container-misses-an-inserted-key", tn + " " + p->str() });
    for (auto p : out)
    {
        bool equal_to_inserted = false;
        for (auto q : in)
            equal_to_inserted = equal_to_inserted || lex3(*p, *q) == 0;
        if (!equal_to_inserted && (s.count(*p) || m.count(*p)))
            f.push_back({ "hash-container-finds-a-key-never-inserted", tn + " " + p->str() });
        if (equal_to_inserted && !s.count(*p))
            f.push_back({ "hash-container-misses-an-inserted-key", tn + " " + p->str() + " (equal to an inserted key)" });
    }
}

// ---- nested standard types through the free function and the containers
using Nested = std::tuple<std::pair<int, std::string>, std::variant<int, std::string>>;
static std::vector<Nested> grid_nested()
{
    std::vector<Nested> g;
    for (int a : { 0, 1 })
        for (auto b : { "", "k" })
            for (int v = 0; v < 4; v++)
            {
                std::variant<int, std::string> var;
                if (v < 2)
                    var = v;
                else
                    var = std::string(v == 2 ? "" : "s");
                g.emplace_back(std::make_pair(a, std::string(b)), var);
            }
    return g;
}
static void check_nested(std::vector<Fail>& f, mc::Report& rep)
{
    auto g = grid_nested();
    long pairs = 0, coll = 0;
    for (size_t i = 0; i < g.size(); i++)
        for (size_t j = 0; j < g.size(); j++)
        {
            rep.count("executions");
            rep.transitions.insert(mc::hash("nested" + std::to_string(i) + "," + std::to_string(j)));
            bool eq = g[i] == g[j];
            bool heq = nitro::lang::hash(g[i]) == nitro::lang::hash(g[j]);
            if (eq && !heq)
                f.push_back({ "equal-values-hash-differently", "nested tuple #" + std::to_string(i) + " vs #" + std::to_string(j) });
            if (!eq)
            {
                pairs++;
                coll += heq;
            }
        }
    if (coll * 20 > pairs)
        f.push_back({ "hash-ignores-a-component", "nested tuple<pair<int,string>,variant<int,string>>: " + std::to_string(coll) + " of " + std::to_string(pairs) + " unequal pairs collide" });
    nitro::lang::unordered_set<Nested> s(g.begin(), g.end());
    if (s.size() != g.size())
        f.push_back({ "hash-container-size-differs-from-distinct-keys", "nested tuples: " + std::to_string(s.size()) + " of " + std::to_string(g.size()) });
    for (auto& x : g)
        if (!s.count(x))
            f.push_back({ "hash-container-misses-an-inserted-key", "nested tuple" });
    // order of components matters
    auto h1 = nitro::lang::hash(std::make_pair(1, 2)), h2 = nitro::lang::hash(std::make_pair(2, 1));
    auto t1 = nitro::lang::hash(std::make_tuple(1, 2, 3)), t2 = nitro::lang::hash(std::make_tuple(3, 2, 1)), t3 = nitro::lang::hash(std::make_tuple(1, 3, 2));
    if (h1 == h2 || t1 == t2 || t1 == t3)
        f.push_back({ "hash-ignores-component-order", "pair(1,2)/pair(2,1) or permutations of tuple(1,2,3) hash equal" });
    // smart pointers hash their pointee; equal pointers hash equal
    for (int v : { 0, 1, -5 })
    {
        auto u = std::make_unique<int>(v);
        auto sp = std::make_shared<int>(v);
        auto sp2 = sp;
        if (nitro::lang::hash(u) != nitro::lang::hash(v) || nitro::lang::hash(sp) != nitro::lang::hash(v))
            f.push_back({ "smart-pointer-hash-differs-from-pointee-hash", std::to_string(v) });
        if (sp == sp2 && nitro::lang::hash(sp) != nitro::lang::hash(sp2))
            f.push_back({ "equal-values-hash-differently", "two shared_ptr to the same object" });
    }
    // plain floating point values: signed zeros compare equal
    if (nitro::lang::hash(0.0) != nitro::lang::hash(-0.0) || nitro::lang::hash(0.0f) != nitro::lang::hash(-0.0f))
        f.push_back({ "equal-values-hash-differently", "+0.0 and -0.0" });
    if (nitro::lang::hash(std::make_tuple(1, 0.0)) != nitro::lang::hash(std::make_tuple(1, -0.0)) ||
        nitro::lang::hash(std::make_pair(0.0f, 1)) != nitro::lang::hash(std::make_pair(-0.0f, 1)))
        f.push_back({ "equal-values-hash-differently", "tuple / pair containing +0.0 vs -0.0" });
}

// ---- per-position sensitivity for nested standard types: all pairs of a small grid; equal values hash equal, and for
// every top-level component the pairs that differ in exactly that component must (nearly) all hash differently - a hash
// that loses a component in a particular POSITION (after a nested tuple, the second of a pair, the tail of a wide string)
// collides on all of them
template <typename T, typename Diff>
static void check_positions(const std::string& name, const std::vector<T>& g, int ncomp, Diff&& differing_component, std::vector<Fail>& f, mc::Report& rep)
{
    std::vector<long> pairs(ncomp, 0), coll(ncomp, 0);
    for (size_t i = 0; i < g.size(); i++)
        for (size_t j = 0; j < g.size(); j++)
        {
            rep.count("executions");
            rep.transitions.insert(mc::hash(name + std::to_string(i) + "," + std::to_string(j)));
            bool eq = g[i] == g[j];
            bool heq = nitro::lang::hash(g[i]) == nitro::lang::hash(g[j]);
            if (eq && !heq)
                f.push_back({ "equal-values-hash-differently", name + " #" + std::to_string(i) + " vs #" + std::to_string(j) });
            int c = eq ? -1 : differing_component(g[i], g[j]);
            if (c >= 0)
            {
                pairs[c]++;
                coll[c] += heq;
            }
        }
    for (int c = 0; c < ncomp; c++)
        if (pairs[c] && coll[c] * 10 > pairs[c])
            f.push_back({ "hash-ignores-a-component", name + ": " + std::to_string(coll[c]) + " of " + std::to_string(pairs[c]) + " pairs that differ only in component #" +
                                                          std::to_string(c) + " hash equal" });
    nitro::lang::unordered_set<T> s(g.begin(), g.end());
    std::vector<T> distinct;
    for (auto& x : g)
        if (std::find(distinct.begin(), distinct.end(), x) == distinct.end())
            distinct.push_back(x);
    if (s.size() != distinct.size())
        f.push_back({ "hash-container-size-differs-from-distinct-keys", name + ": " + std::to_string(s.size()) + " of " + std::to_string(distinct.size()) });
    for (auto& x : g)
        if (!s.count(x))
            f.push_back({ "hash-container-misses-an-inserted-key", name });
}
template <typename A, typename B>
static int diff2(const A& xa, const A& ya, const B& xb, const B& yb)
{
    int d = (xa != ya) + (xb != yb);
    return d != 1 ? -1 : xa != ya ? 0 : 1;
}
template <typename A, typename B, typename C>
static int diff3(const A& xa, const A& ya, const B& xb, const B& yb, const C& xc, const C& yc)
{
    int d = (xa != ya) + (xb != yb) + (xc != yc);
    return d != 1 ? -1 : xa != ya ? 0 : xb != yb ? 1 : 2;
}
static void check_nested_positions(std::vector<Fail>& f, mc::Report& rep)
{
    using std::get;
    {
        using T = std::tuple<int, std::tuple<int, int>>;
        std::vector<T> g;
        for (int a : { 1, 9, -2 })
            for (int b : { 2, 3 })
                for (int c : { 3, 4 })
                    g.emplace_back(a, std::make_tuple(b, c));
        check_positions("tuple<int,tuple<int,int>>", g, 2, [](const T& x, const T& y) { return diff2(get<0>(x), get<0>(y), get<1>(x), get<1>(y)); }, f, rep);
    }
    {
        using T = std::tuple<std::string, int, P2>;
        std::vector<T> g;
        for (auto n : { "n", "", "name" })
            for (int id : { 0, 7 })
                for (int px : { 1, 2 })
                    g.emplace_back(n, id, P2(px, 5));
        check_positions("tuple<string,int,P2>", g, 3, [](const T& x, const T& y) { return diff3(get<0>(x), get<0>(y), get<1>(x), get<1>(y), get<2>(x), get<2>(y)); }, f, rep);
    }
    {
        using T = std::tuple<int, std::pair<int, int>, int>;
        std::vector<T> g;
        for (int a : { 1, 2 })
            for (int b : { 3, 4 })
                for (int c : { 3, 4, 5 })
                    for (int d : { 0, 6 })
                        g.emplace_back(a, std::make_pair(b, c), d);
        check_positions("tuple<int,pair<int,int>,int>", g, 3, [](const T& x, const T& y) { return diff3(get<0>(x), get<0>(y), get<1>(x), get<1>(y), get<2>(x), get<2>(y)); }, f, rep);
    }
    {
        using T = std::pair<int, int>;
        std::vector<T> g;
        for (int a : { 1, 2, 3 })
            for (int b : { 1, 2, 3, 4 })
                g.emplace_back(a, b);
        check_positions("pair<int,int>", g, 2, [](const T& x, const T& y) { return diff2(x.first, y.first, x.second, y.second); }, f, rep);
    }
    {
        using T = std::tuple<int, std::variant<int, std::string>, std::shared_ptr<int>>;
        std::vector<T> g;
        std::vector<std::shared_ptr<int>> ptrs = { std::make_shared<int>(1), std::make_shared<int>(2) };
        for (int a : { 1, 2, 3 })
            for (int v = 0; v < 3; v++)
                for (auto& p : ptrs)
                    g.emplace_back(a, v < 2 ? std::variant<int, std::string>(v) : std::variant<int, std::string>(std::string("s")), p);
        check_positions("tuple<int,variant,shared_ptr>", g, 3, [](const T& x, const T& y) { return diff3(get<0>(x), get<0>(y), get<1>(x), get<1>(y), get<2>(x), get<2>(y)); }, f, rep);
    }
    {
        // strings of every character width: values that differ only in their last character
        using T = std::tuple<std::u16string, std::u32string, std::wstring>;
        std::vector<std::u16string> a = { u"", u"component_a", u"component_b", u"x" };
        std::vector<std::u32string> b = { U"", U"component_a", U"component_b", U"y" };
        std::vector<std::wstring> c = { L"", L"component_a", L"component_b", L"z" };
        std::vector<T> g;
        for (auto& x : a)
            for (auto& y : b)
                for (auto& z : c)
                    g.emplace_back(x, y, z);
        check_positions("tuple<u16string,u32string,wstring>", g, 3, [](const T& x, const T& y) { return diff3(get<0>(x), get<0>(y), get<1>(x), get<1>(y), get<2>(x), get<2>(y)); }, f, rep);
        // narrow strings at sizes around the short-string and block thresholds, differing in the first / a middle / the last byte
        {
            std::vector<std::string> g = { "" };
            for (size_t n : { 1u, 7u, 8u, 9u, 15u, 16u, 17u, 31u, 32u, 33u, 255u, 256u, 1000u })
            {
                std::string base(n, 's');
                g.push_back(base);
                auto x = base;
                x[n - 1] = 't';
                g.push_back(x);
                x = base;
                x[0] = 't';
                g.push_back(x);
                x = base;
                x[n / 2] = '\0';
                g.push_back(x);
            }
            std::vector<std::string> distinct;
            for (auto& x : g)
                if (std::find(distinct.begin(), distinct.end(), x) == distinct.end())
                    distinct.push_back(x);
            check_positions("string(sizes)", distinct, 1, [](const std::string&, const std::string&) { return 0; }, f, rep);
            // a family of strings that are equal up to an embedded NUL and differ behind it (packed ids, UTF-16 text)
            std::vector<std::string> nulfam;
            for (auto tail : { "", "c", "d", "cd", "ce", "zzzz", "c\0d" })
                nulfam.push_back(std::string("ab\0", 3) + std::string(tail, std::string(tail) == "c" ? 1 : std::strlen(tail)));
            nulfam.push_back(std::string("ab\0c\0d", 6));
            nulfam.push_back(std::string("ab\0c\0e", 6));
            check_positions("string(equal up to an embedded NUL)", nulfam, 1, [](const std::string&, const std::string&) { return 0; }, f, rep);
            using T = std::tuple<std::string, std::string>;
            std::vector<T> tg;
            for (size_t i = 0; i < distinct.size(); i += 3)
                for (size_t j = 1; j < distinct.size(); j += 5)
                    tg.emplace_back(distinct[i], distinct[j]);
            check_positions("tuple<string,string>(sizes)", tg, 2, [](const T& x, const T& y) { return diff2(get<0>(x), get<0>(y), get<1>(x), get<1>(y)); }, f, rep);
        }
        // long double: equal values whose storage had different previous contents (the type has padding bytes on x86)
        {
            alignas(16) unsigned char m1[sizeof(long double)], m2[sizeof(long double)];
            std::memset(m1, 0xAA, sizeof m1);
            std::memset(m2, 0x55, sizeof m2);
            long double* pa = new (m1) long double;
            long double* pb = new (m2) long double;
            for (const char* txt : { "1.25", "0", "-0", "3.3621e-4932", "1e4000" })
            {
                *pa = std::strtold(txt, nullptr);
                *pb = std::strtold(txt, nullptr);
                rep.count("executions");
                if (*pa == *pb && nitro::lang::hash(*pa) != nitro::lang::hash(*pb))
                    f.push_back({ "equal-values-hash-differently", std::string("long double ") + txt + " stored in memory with different previous contents" });
                auto ta = std::make_tuple(*pa, 1), tb = std::make_tuple(*pb, 1);
                if (ta == tb && nitro::lang::hash(ta) != nitro::lang::hash(tb))
                    f.push_back({ "equal-values-hash-differently", std::string("tuple<long double,int> with ") + txt });
            }
        }
        // integers of several widths at their extremes
        {
            using T = std::tuple<std::int64_t, std::uint64_t, std::int8_t, std::uint16_t>;
            std::vector<T> g;
            for (std::int64_t a : { std::numeric_limits<std::int64_t>::min(), std::int64_t(-1), std::int64_t(0), std::int64_t(1) << 32, std::numeric_limits<std::int64_t>::max() })
                for (std::uint64_t b : { std::uint64_t(0), std::uint64_t(1) << 63, std::numeric_limits<std::uint64_t>::max() })
                    for (std::int8_t c : { std::int8_t(-128), std::int8_t(0), std::int8_t(127) })
                        for (std::uint16_t d : { std::uint16_t(0), std::uint16_t(255), std::uint16_t(256), std::uint16_t(65535) })
                            g.emplace_back(a, b, c, d);
            check_positions("tuple<int64,uint64,int8,uint16>(extremes)", g, 4, [](const T& x, const T& y) {
                int d = (get<0>(x) != get<0>(y)) + (get<1>(x) != get<1>(y)) + (get<2>(x) != get<2>(y)) + (get<3>(x) != get<3>(y));
                return d != 1 ? -1 : get<0>(x) != get<0>(y) ? 0 : get<1>(x) != get<1>(y) ? 1 : get<2>(x) != get<2>(y) ? 2 : 3;
            }, f, rep);
        }
        std::vector<std::u32string> single = { U"", U"a", U"ab", U"abc", U"abd", U"abcd", U"abce", U"abcdefgh", U"abcdefgx" };
        check_positions("u32string", single, 1, [](const std::u32string&, const std::u32string&) { return 0; }, f, rep);
        std::vector<std::u16string> single16 = { u"", u"a", u"ab", u"ac", u"abcd", u"abce", u"abcdefgh", u"abcdefgx" };
        check_positions("u16string", single16, 1, [](const std::u16string&, const std::u16string&) { return 0; }, f, rep);
    }
}

int main(int argc, char** argv)
{
    auto a = mc::parse_args(argc, argv);
    bool big = a.thorough() && !a.asan();
    auto g3 = grid_v3(big);
    auto g2 = grid_p2(big);
    auto g4 = grid_w4(big);
    struct Case
    {
        std::string name;
        std::function<void(std::vector<Fail>&, mc::Report&)> run;
    };
    std::vector<Case> cases;
    for (size_t i = 0; i < g3.size(); i++)
        cases.push_back({ "V3/" + std::to_string(i), [&, i](std::vector<Fail>& f, mc::Report& r) { check_type("V3", g3, i, f, r); check_mutation("V3", g3, i, f, r); } });
    for (size_t i = 0; i < g2.size(); i++)
        cases.push_back({ "P2/" + std::to_string(i), [&, i](std::vector<Fail>& f, mc::Report& r) { check_type("P2", g2, i, f, r); check_mutation("P2", g2, i, f, r); } });
    for (size_t i = 0; i < g4.size(); i++)
        cases.push_back({ "W4/" + std::to_string(i), [&, i](std::vector<Fail>& f, mc::Report& r) { check_type("W4", g4, i, f, r); check_mutation("W4", g4, i, f, r); } });
    cases.push_back({ "sensitivity", [&](std::vector<Fail>& f, mc::Report&) {
                         check_sensitivity("V3", g3, 3, [](const V3& x, const V3& y) { int d = (x.a != y.a) + (x.b != y.b) + (x.c != y.c); return d != 1 ? -1 : x.a != y.a ? 0 : x.b != y.b ? 1 : 2; }, f);
                         check_sensitivity("P2", g2, 2, [](const P2& x, const P2& y) { int d = (x.x != y.x) + (x.y != y.y); return d != 1 ? -1 : x.x != y.x ? 0 : 1; }, f);
                         check_sensitivity("W4", g4, 5, [](const W4& x, const W4& y) { int d = (x.f != y.f) + (x.s != y.s) + (x.u != y.u) + (x.flag != y.flag) + (x.w != y.w); return d != 1 ? -1 : x.f != y.f ? 0 : x.s != y.s ? 1 : x.u != y.u ? 2 : x.flag != y.flag ? 3 : 4; }, f);
                         // swapped same-typed members
                         long pairs = 0, coll = 0;
                         for (auto& p : g2)
                             if (p.x != p.y)
                             {
                                 pairs++;
                                 coll += nitro::lang::hash(p) == nitro::lang::hash(P2(p.y, p.x));
                             }
                         if (coll == pairs || coll * 20 > pairs)
                             f.push_back({ "hash-ignores-member-order", "P2: " + std::to_string(coll) + " of " + std::to_string(pairs) + " values collide with their swapped counterpart" });
                     } });
    cases.push_back({ "containers", [&](std::vector<Fail>& f, mc::Report&) { check_containers("V3", g3, f); check_containers("P2", g2, f); check_containers("W4", g4, f); } });
    cases.push_back({ "nested", [&](std::vector<Fail>& f, mc::Report& r) { check_nested(f, r); } });
    cases.push_back({ "nested-positions", [&](std::vector<Fail>& f, mc::Report& r) { check_nested_positions(f, r); } });
    if (!a.replay.empty())
    {
        auto doc = js::load(a.replay);
        const js::Value& w = doc.has("witness") ? doc.at("witness") : doc;
        for (auto& c : cases)
            if (c.name == w.s("case"))
            {
                std::vector<Fail> f;
                mc::Report r;
                c.run(f, r);
                printf("replay C16 case %s\n", c.name.c_str());
                for (auto& x : f)
                    printf("  FAILED clause: %s\n    %s\n", x.clause.c_str(), x.detail.c_str());
                if (f.empty())
                    printf("  conforms\n");
                return f.empty() ? 0 : 1;
            }
        return 2;
    }
    mc::Sharded sh;
    sh.id = "C16";
    sh.nworkers = a.jobs;
    sh.tmpdir = a.tmpdir;
    sh.case_timeout_s = 60;
    sh.walk = [&](mc::Ctx& ctx) {
        for (auto& c : cases)
        {
            long idx = ctx.next;
            ctx.each([&] { return mc::Desc{ mc::J().s("case", c.name).str(), c.name.substr(0, c.name.find('/')) }; },
                     [&](mc::Report& rep) {
                         std::vector<Fail> f;
                         c.run(f, rep);
                         rep.states.insert(mc::hash(c.name));
                         std::set<std::string> seen;
                         for (auto& x : f)
                         {
                             rep.violation(x.clause, "C16:" + x.clause + ":" + c.name.substr(0, c.name.find('/')), mc::J().s("case", c.name).str(), x.detail, idx);
                             seen.insert(x.clause);
                         }
                         rep.outcomes.insert(mc::hash(c.name.substr(0, 2) + std::to_string(seen.size())));
                         if (idx % 13 == 0)
                             rep.sample(mc::J().s("case", c.name).s("meaning", "type/index of the first grid value: all pairs, all triples and all in-place changes starting from it").str());
                     });
        }
    };
    auto rep = sh.run();
    rep.nontrivial = rep.transitions;
    rep.counters["grid_V3"] = g3.size();
    rep.counters["grid_P2"] = g2.size();
    rep.counters["grid_W4"] = g4.size();
    rep.notes["rule"] = "exhaustive grids of member tuples (V3: int8 x string x double with signed zeros; P2: two ints; W4: float x int16 x uint64 "
                        "x bool; nested tuple/pair/variant; smart pointers): all ordered pairs (six operators, hash agreement), all triples "
                        "(transitivity), all in-place changes value_i -> value_j after hashing; states = grid values, transitions = ordered pairs";
    mc::write_out(a, rep);
    return 0;
}

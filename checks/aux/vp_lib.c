/* tiny test library for C19; built twice (-DVP_RET=1 as libvp_a.so, -DVP_RET=2 as libvp_b.so) */
int vp_fn(void)
{
    return VP_RET;
}
int vp_add(int a, int b)
{
    return a + b + VP_RET;
}

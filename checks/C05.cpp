// C05 - a log statement reaches the sink exactly once iff it is enabled, unaltered.  See logmc.hpp / logmain.hpp.
#include "logmain.hpp"
int main(int argc, char** argv)
{
    return lm::log_main(argc, argv, "C05");
}

// C09 - thread-safe sinks emit each concurrent record once and contiguously.
// Engine C: real threads running the real logger<..., stdout_mt | StdErrThreaded, ...> code, serialised by the
// scheduler of engine/sched.c at every pthread_mutex_lock/unlock/trylock (interposed) and at every byte written into and
// every phase of a flush of a deliberately non-thread-safe stream buffer installed in std::cout / std::cerr.  All
// schedules with at most k preemptions are explored depth first (iterative context bounding).  A separate free-running
// ThreadSanitizer build of the same thread bodies keeps unsynchronised accesses visible.
#include "../engine/json.hpp"
#include "../engine/mc.hpp"
#include "../engine/sched.h"

#include <nitro/log/attribute/message.hpp>
#include <nitro/log/attribute/severity.hpp>
#include <nitro/log/attribute/tag.hpp>
#include <nitro/log/attribute/timestamp.hpp>
#include <nitro/log/filter/null_filter.hpp>
#include <nitro/log/log.hpp>
#include <nitro/log/sink/stderr_mt.hpp>
#include <nitro/log/sink/stdout_mt.hpp>

#include <cstring>
#include <iostream>
#include <memory>
#include <set>
#include <streambuf>
#include <thread>
#include <unordered_map>

namespace nl = nitro::log;

// ---------------------------------------------------------------------------------------------
// a stream buffer that is NOT thread-safe: bytes go through a staging area with read-yield-write steps, a flush
// copies the staging area out in three separate steps; concurrent entry is detected
struct RaceBuf : std::streambuf
{
    char staging[256];
    volatile int len = 0;
    std::string out;
    volatile int inside = 0;
    int concurrent_entries = 0;

    void enter()
    {
        if (inside++)
            concurrent_entries++;
    }
    void leave()
    {
        inside--;
    }
    void put(char c)
    {
        int pos = len; // read
        sched_observe(static_cast<unsigned long long>(pos) + 1000);
        sched_point(SP_BYTE, this);
        if (pos < static_cast<int>(sizeof staging))
            staging[pos] = c; // write
        len = pos + 1;
    }
    std::streamsize xsputn(const char* s, std::streamsize n) override
    {
        enter();
        for (std::streamsize i = 0; i < n; i++)
            put(s[i]);
        leave();
        return n;
    }
    int_type overflow(int_type c) override
    {
        enter();
        if (c != traits_type::eof())
            put(static_cast<char>(c));
        leave();
        return c;
    }
    int sync() override
    {
        enter();
        sched_point(SP_SYNC, this);
        int n = len;
        std::string tmp(staging, staging + std::min<int>(n, static_cast<int>(sizeof staging)));
        sched_observe(mc::hash(tmp) ^ static_cast<unsigned long long>(n));
        sched_point(SP_SYNC, this);
        out += tmp;
        sched_point(SP_SYNC, this);
        len = 0;
        leave();
        return 0;
    }
    void reset()
    {
        len = 0;
        out.clear();
        inside = 0;
        concurrent_entries = 0;
    }
};

static RaceBuf& buf()
{
    static RaceBuf b;
    return b;
}
// digest of the shared state outside the scheduler's model: everything the stream buffer holds
extern "C" unsigned long long buffer_state()
{
    auto& b = buf();
    int cur = b.len;
    int n = std::min<int>(cur, static_cast<int>(sizeof b.staging));
    uint64_t h = mc::fnv(b.staging, n > 0 ? n : 0);
    h = mc::hash(b.out, h);
    h = mc::hash2(h, (static_cast<uint64_t>(cur) << 32) ^ (static_cast<uint64_t>(static_cast<int>(b.inside)) << 8) ^ static_cast<uint64_t>(b.concurrent_entries));
    return h;
}

// ---------------------------------------------------------------------------------------------
// loggers

using record = nl::record<nl::tag_attribute, nl::message_attribute, nl::severity_attribute, nl::timestamp_attribute>;
template <typename R>
struct IdFormatter
{
    std::string format(R& r)
    {
        return r.message();
    }
};
using LOut = nl::logger<record, IdFormatter, nl::sink::stdout_mt, nl::filter::null_filter>;
using LErr = nl::logger<record, IdFormatter, nl::sink::StdErrThreaded, nl::filter::null_filter>;

// a second logger type (other record, other formatter) on the same thread-safe sinks: in one program an application
// logger and a component logger usually coexist, both writing to the one std::cout / std::cerr
using record2 = nl::record<nl::message_attribute, nl::severity_attribute, nl::timestamp_attribute>;
template <typename R>
struct IdFormatter2
{
    std::string format(R& r)
    {
        return std::string(r.message());
    }
};
using LOut2 = nl::logger<record2, IdFormatter2, nl::sink::stdout_mt, nl::filter::null_filter>;
using LErr2 = nl::logger<record2, IdFormatter2, nl::sink::StdErrThreaded, nl::filter::null_filter>;

template <typename L>
static void log_one(int sev, const std::string& text)
{
    switch (sev)
    {
    case 0:
        L::trace() << text;
        break;
    case 1:
        L::debug() << text;
        break;
    case 2:
        L::info() << text;
        break;
    case 3:
        L::warn() << text;
        break;
    case 4:
        L::error() << text;
        break;
    default:
        L::fatal() << text;
        break;
    }
}

struct Rec
{
    int sev;
    std::string text; // ends with ';', contains no other ';'
};
struct Config
{
    std::string name;
    int sink = 0; // 0 stdout_mt, 1 StdErrThreaded
    std::vector<std::vector<Rec>> threads;
    int pattern = 0; // 1: each thread has three records; the first and the third are named streams with non-nested lifetimes
                     // 2: threads with an odd number log through the second logger type (same sink type, same stream)
};

// record X is opened, record Y is opened, X is completed and closed, a whole record is logged, Y is completed and closed
// (one open record per request, kept on the heap): the thread's records must appear as r0, r1, r2
template <typename L>
static void non_nested(const std::vector<Rec>& rs)
{
    using S = decltype(L::info());
    size_t h0 = rs[0].text.size() / 2, h2 = rs[2].text.size() / 2;
    std::unique_ptr<S> x(new S(L::info()));
    *x << rs[0].text.substr(0, h0);
    std::unique_ptr<S> y(new S(L::info()));
    *y << rs[2].text.substr(0, h2);
    *x << rs[0].text.substr(h0);
    x.reset();
    L::info() << rs[1].text;
    *y << rs[2].text.substr(h2);
    y.reset();
}

static void body(int t, void* arg)
{
    auto* c = static_cast<Config*>(arg);
    if (c->pattern == 1)
    {
        if (c->sink == 0)
            non_nested<LOut>(c->threads[t]);
        else
            non_nested<LErr>(c->threads[t]);
        return;
    }
    for (auto& r : c->threads[t])
    {
        if (c->pattern == 2 && t % 2 == 1)
        {
            if (c->sink == 0)
                log_one<LOut2>(r.sev, r.text);
            else
                log_one<LErr2>(r.sev, r.text);
            continue;
        }
        if (c->sink == 0)
            log_one<LOut>(r.sev, r.text);
        else
            log_one<LErr>(r.sev, r.text);
    }
}

static std::vector<Config> configs()
{
    std::vector<Config> cs;
    for (int sink = 0; sink < 2; sink++)
    {
        std::string sn = sink ? "stderr_mt" : "stdout_mt";
        cs.push_back({ sn + " 2x2", sink, { { { 2, "a;" }, { 5, "bcd;" } }, { { 3, "EF;" }, { 2, "G;" } } } });
        cs.push_back({ sn + " 3x1", sink, { { { 2, "a1;" } }, { { 5, "BB22;" } }, { { 4, "c;" } } } });
        cs.push_back({ sn + " 3x2", sink, { { { 2, "a;" }, { 5, "bc;" } }, { { 3, "D;" }, { 5, "EF;" } }, { { 0, "x;" }, { 4, "yz1;" } } } });
        cs.push_back({ sn + " 2x1 long", sink, { { { 5, "abcde;" } }, { { 2, "VWXYZ;" } } } });
        cs.push_back({ sn + " 4x1", sink, { { { 2, "a;" } }, { { 5, "B2;" } }, { { 4, "c;" } }, { { 1, "dd;" } } } });
        // particular bytes inside records: NUL (a C-string view would cut the record), high bytes, CR, tab, '%'
        cs.push_back({ sn + " 2x2 special bytes", sink, { { { 2, std::string("a\0b;", 4) }, { 5, "%s\t\r;" } }, { { 3, std::string("\xff\0\x80;", 4) }, { 2, "G;" } } } });
        cs.push_back({ sn + " 2x3 non-nested streams", sink, { { { 2, "ab;" }, { 2, "c;" }, { 2, "de;" } }, { { 2, "VW;" }, { 2, "X;" }, { 2, "YZ;" } } }, 1 });
    }
    // appended behind the older configurations (replay files name a configuration by its index)
    for (int sink = 0; sink < 2; sink++)
    {
        std::string sn = sink ? "stderr_mt" : "stdout_mt";
        cs.push_back({ sn + " 2x2 two logger types", sink, { { { 2, "a;" }, { 5, "bcd;" } }, { { 3, "EF;" }, { 2, "G;" } } }, 2 });
        cs.push_back({ sn + " 3x1 two logger types", sink, { { { 2, "a1;" } }, { { 5, "BB22;" } }, { { 4, "c;" } } }, 2 });
    }
    return cs;
}

// ---------------------------------------------------------------------------------------------
// one execution and its oracle

struct Exec
{
    sched_result res;
    std::string out;
    int concurrent = 0;
    std::string verdict; // empty = fine
    std::string clause;
};

static Exec run_schedule(Config& c, const std::vector<unsigned char>& choices)
{
    Exec e;
    buf().reset();
    sched_run(static_cast<int>(c.threads.size()), body, &c, choices.data(), static_cast<int>(choices.size()), &e.res);
    if (e.res.deadlock)
    {
        e.clause = "deadlock";
        e.verdict = "no thread is enabled although some have not finished";
        return e;
    }
    // whatever is still in the staging area belongs to the output as well (the stream was not flushed by the sink)
    {
        int n = buf().len;
        e.out = buf().out + std::string(buf().staging, buf().staging + std::min<int>(n, static_cast<int>(sizeof buf().staging)));
    }
    e.concurrent = buf().concurrent_entries;
    if (e.res.overflow)
    {
        e.clause = "harness";
        e.verdict = "more scheduling points than the scheduler records";
        return e;
    }
    // oracle
    std::vector<std::string> pieces;
    {
        std::string cur;
        for (char ch : e.out)
        {
            cur += ch;
            if (ch == ';')
            {
                pieces.push_back(cur);
                cur.clear();
            }
        }
        if (!cur.empty())
            pieces.push_back(cur);
    }
    std::multiset<std::string> want, got(pieces.begin(), pieces.end());
    for (auto& t : c.threads)
        for (auto& r : t)
            want.insert(r.text);
    if (e.concurrent)
    {
        e.clause = "stream-buffer-entered-by-two-threads-at-once";
        e.verdict = std::to_string(e.concurrent) + " concurrent entr(y/ies) into the stream buffer; output '" + e.out + "'";
    }
    else if (got != want)
    {
        bool all_known = true;
        for (auto& p : got)
            all_known = all_known && want.count(p);
        e.clause = !all_known ? "records-interleaved-or-garbled" : got.size() < want.size() ? "record-lost" : "record-duplicated";
        e.verdict = "output '" + e.out + "' is not a concatenation of exactly the logged records";
    }
    else
    {
        // per-thread program order
        for (size_t t = 0; t < c.threads.size() && e.verdict.empty(); t++)
        {
            size_t pos = 0;
            for (auto& r : c.threads[t])
            {
                auto at = std::find(pieces.begin() + pos, pieces.end(), r.text);
                if (at == pieces.end())
                {
                    e.clause = "per-thread-order-violated";
                    e.verdict = "thread " + std::to_string(t) + "'s records do not appear in program order in '" + e.out + "'";
                    break;
                }
                pos = at - pieces.begin() + 1;
            }
        }
    }
    return e;
}

// the same, in a freshly forked process (the parent has never logged): result comes back through a pipe
static Exec run_schedule_fresh(Config& c, const std::vector<unsigned char>& choices)
{
    int fd[2];
    Exec e;
    if (pipe(fd) != 0)
    {
        e.clause = "harness";
        e.verdict = "pipe failed";
        return e;
    }
    fflush(stdout);
    fflush(stderr);
    pid_t p = fork();
    if (p == 0)
    {
        close(fd[0]);
        Exec x = run_schedule(c, choices);
        auto put = [&](const void* d, size_t n) {
            const char* b = static_cast<const char*>(d);
            while (n)
            {
                ssize_t w = write(fd[1], b, n);
                if (w <= 0)
                    _exit(3);
                b += w;
                n -= w;
            }
        };
        auto puts = [&](const std::string& str) {
            size_t n = str.size();
            put(&n, sizeof n);
            put(str.data(), n);
        };
        put(&x.res, sizeof x.res);
        put(&x.concurrent, sizeof x.concurrent);
        puts(x.out);
        puts(x.clause);
        puts(x.verdict);
        _exit(0);
    }
    close(fd[1]);
    std::string all;
    char tmp[8192];
    ssize_t n;
    while ((n = read(fd[0], tmp, sizeof tmp)) > 0)
        all.append(tmp, n);
    close(fd[0]);
    int st = 0;
    waitpid(p, &st, 0);
    size_t off = 0;
    auto get = [&](void* d, size_t k) {
        if (off + k > all.size())
            return false;
        memcpy(d, all.data() + off, k);
        off += k;
        return true;
    };
    auto gets = [&](std::string& str) {
        size_t k = 0;
        if (!get(&k, sizeof k) || off + k > all.size())
            return false;
        str.assign(all.data() + off, k);
        off += k;
        return true;
    };
    bool ok = get(&e.res, sizeof e.res) && get(&e.concurrent, sizeof e.concurrent) && gets(e.out) && gets(e.clause) && gets(e.verdict);
    if (!ok || !WIFEXITED(st) || WEXITSTATUS(st) != 0)
    {
        e.clause = "crash";
        e.verdict = "the process running this schedule died (" + std::string(WIFSIGNALED(st) ? strsignal(WTERMSIG(st)) : "exit status " + std::to_string(WEXITSTATUS(st))) + ")";
    }
    return e;
}

static std::string trace_str(const sched_result& r)
{
    std::string s;
    for (int i = 0; i < r.n_points; i++)
        s += std::to_string(r.points[i].enabled[r.points[i].chosen]);
    return s;
}
static std::string choices_json(const std::vector<unsigned char>& ch)
{
    std::string s = "[";
    for (size_t i = 0; i < ch.size(); i++)
        s += (i ? "," : "") + std::to_string(ch[i]);
    return s + "]";
}

struct Explore
{
    Config* cfg;
    int bound;
    long schedules = 0, points = 0;
    int max_points = 0;
    std::set<std::string> outputs;
    mc::Report* rep;
    long idx;
    double deadline;
    bool cut = false;
    int ci;
    bool fresh = false; // every execution in a process of its own (first use of the sink)
    bool prune = false; // stop at choice points whose whole program state was already explored with at least this budget
    std::unordered_map<uint64_t, int> seen_state;
    long pruned = 0;

    Exec run(const std::vector<unsigned char>& choices)
    {
        return fresh ? run_schedule_fresh(*cfg, choices) : run_schedule(*cfg, choices);
    }

    void report(const Exec& e, const std::vector<unsigned char>& choices)
    {
        std::string w = mc::J().n("config", ci).s("config_name", cfg->name).raw("choices", choices_json(choices)).b("first_use", fresh).str();
        if (e.res.deadlock && !fresh)
        {
            // the threads of a deadlocked execution stay parked for ever, nothing more can be run in this process
            rep->violation(e.clause, "C09:" + e.clause + ":" + cfg->name, w, e.verdict + " ; thread chosen at each scheduling point: " + trace_str(e.res), idx);
            return;
        }
        // replay alone before reporting: the same schedule must fail the same way
        auto again = run(choices);
        if (again.clause != e.clause || again.out != e.out)
        {
            rep->violation("harness-nondeterministic-replay", "C09:harness:nondeterministic-replay", w,
                           "first run: " + e.clause + " '" + e.out + "' ; replay: " + again.clause + " '" + again.out + "'", idx);
            return;
        }
        rep->violation(e.clause, "C09:" + e.clause + ":" + cfg->name, w, e.verdict + " ; thread chosen at each scheduling point: " + trace_str(e.res), idx);
    }

    void explore(const std::vector<unsigned char>& prefix)
    {
        if (cut)
            return;
        auto e = run(prefix);
        schedules++;
        points += e.res.n_points;
        max_points = std::max(max_points, e.res.n_points);
        rep->count("executions");
        if (e.res.diverged)
        {
            rep->violation("harness-replay-diverged", "C09:harness:replay-diverged", "null", "a recorded choice was out of range while replaying a prefix", idx);
            return;
        }
        outputs.insert(e.out);
        rep->outcomes.insert(mc::hash(cfg->name + e.out));
        if (!e.clause.empty())
        {
            // actual choices taken
            std::vector<unsigned char> taken;
            for (int i = 0; i < e.res.n_points; i++)
                taken.push_back(e.res.points[i].chosen);
            report(e, taken);
            if (rep->total_violations > 20)
                cut = true;
            if (e.res.deadlock && !fresh)
                cut = true; // threads are parked for ever; this process is given up by the caller
            return;
        }
        if ((schedules & 255) == 0 && deadline > 0 && mc::now_s() > deadline)
        {
            cut = true;
            return;
        }
        // preemptions used up to each point
        std::vector<int> pre(e.res.n_points + 1, 0);
        for (int i = 0; i < e.res.n_points; i++)
        {
            auto& p = e.res.points[i];
            bool preempt = p.running_enabled && p.chosen != 0;
            pre[i + 1] = pre[i] + (preempt ? 1 : 0);
        }
        for (int i = static_cast<int>(prefix.size()); i < e.res.n_points; i++)
        {
            auto& p = e.res.points[i];
            if (prune)
            {
                // same program state (threads' progress and observations, mutex owners, buffer) and same running thread,
                // reached before with at least as much preemption budget left: everything from here on has been explored
                uint64_t key = mc::hash2(p.state, p.running);
                int remaining = bound - pre[i];
                auto it = seen_state.find(key);
                if (it != seen_state.end() && it->second >= remaining)
                {
                    pruned++;
                    break;
                }
                seen_state[key] = remaining;
                rep->states.insert(mc::hash2(key, mc::hash(cfg->name)));
            }
            // state of the exploration at this point for the transition count
            rep->transitions.insert(mc::hash(cfg->name + trace_str(e.res).substr(0, i) + "|" + std::to_string(p.n_enabled)));
            for (int alt = 1; alt < p.n_enabled; alt++)
            {
                int cost = pre[i] + (p.running_enabled ? 1 : 0);
                if (cost > bound)
                    continue;
                std::vector<unsigned char> next;
                for (int j = 0; j < i; j++)
                    next.push_back(e.res.points[j].chosen);
                next.push_back(static_cast<unsigned char>(alt));
                explore(next);
                if (cut)
                    return;
            }
        }
    }
};

#ifdef VP_TSAN
// free-running pass: the same thread bodies on real threads without the scheduler, under ThreadSanitizer
static int tsan_pass(const mc::Args& a)
{
    auto cs = configs();
    std::string log = a.tmpdir + "/C09.tsan." + std::to_string(getpid()) + ".log";
    FILE* f = freopen(log.c_str(), "w", stderr);
    (void)f;
    std::cout.rdbuf(&buf());
    std::cerr.rdbuf(&buf());
    long runs = 0;
    int iters = a.thorough() ? 600 : 200;
    for (auto& c : cs)
        for (int it = 0; it < iters; it++)
        {
            buf().reset();
            std::vector<std::thread> th;
            for (size_t t = 0; t < c.threads.size(); t++)
                th.emplace_back([&c, t] { body(static_cast<int>(t), &c); });
            for (auto& t : th)
                t.join();
            runs++;
        }
    fflush(stderr);
    std::ifstream in(log);
    std::stringstream ss;
    ss << in.rdbuf();
    auto text = ss.str();
    long races = 0;
    for (size_t p = text.find("WARNING: ThreadSanitizer"); p != std::string::npos; p = text.find("WARNING: ThreadSanitizer", p + 1))
        races++;
    mc::Report rep;
    rep.count("executions", runs);
    rep.count("tsan_free_running_iterations", runs);
    rep.states.insert(1);
    rep.transitions.insert(1);
    rep.nontrivial.insert(1);
    rep.nontrivial.insert(2);
    rep.sample(mc::J().s("pass", "ThreadSanitizer, free running, no scheduler").n("iterations", runs).str());
    if (races)
        rep.violation("data-race-reported-by-thread-sanitizer", "C09:data-race", mc::J().s("pass", "tsan").str(),
                      std::to_string(races) + " ThreadSanitizer report(s); first: " + text.substr(0, 1500), 0);
    rep.notes["rule"] = "free-running ThreadSanitizer pass of the same thread bodies (detector that keeps races visible, not the deciding exploration)";
    unlink(log.c_str());
    mc::write_out(a, rep);
    return 0;
}
#endif

int main(int argc, char** argv)
{
    auto a = mc::parse_args(argc, argv);
#ifdef VP_TSAN
    if (a.replay.empty())
        return tsan_pass(a);
    printf("replay C09: schedules are replayed by the scheduler build, not by the ThreadSanitizer build\n");
    return 0;
#else
    auto cs = configs();
    std::cout.rdbuf(&buf());
    std::cerr.rdbuf(&buf());
    sched_set_state_fn(buffer_state);
    // Nothing is logged before the scheduled threads run: the first use of a sink (construction of its function-local
    // statics, anything it decides "on first use") happens inside the explored executions.  In the "first use" jobs every
    // single execution runs in a process of its own, so that every explored schedule is a first use.
    if (!a.replay.empty())
    {
        auto doc = js::load(a.replay);
        const js::Value& w = doc.has("witness") ? doc.at("witness") : doc;
        if (!w.has("choices"))
        {
            printf("replay C09: this witness is not a schedule (%s)\n", w.s("pass").c_str());
            return 0;
        }
        auto& c = cs[w.n("config")];
        std::vector<unsigned char> ch;
        for (auto& v : w.at("choices").arr)
            ch.push_back(static_cast<unsigned char>(v.num));
        auto e = w.flag("first_use") ? run_schedule_fresh(c, ch) : run_schedule(c, ch);
        printf("replay C09 %s: %zu choices, %d scheduling points\n  thread at each point: %s\n  output: '%s'\n", c.name.c_str(), ch.size(), e.res.n_points,
               trace_str(e.res).c_str(), e.out.c_str());
        if (e.clause.empty())
            printf("  every record appears once, contiguously, in per-thread order\n");
        else
            printf("  FAILED clause: %s\n    %s\n", e.clause.c_str(), e.verdict.c_str());
        fflush(stdout);
        if (e.res.deadlock)
            _exit(1);
        return e.clause.empty() ? 0 : 1;
    }
    // plan: (config, bound).  bound 99 = unbounded
    struct Job
    {
        int cfg, bound;
        bool fresh = false;
        bool prune = false;
    };
    std::vector<Job> jobs;
    for (size_t i = 0; i < cs.size(); i++)
    {
        bool two = cs[i].threads.size() == 2;
        int k = a.thorough() ? (two ? 99 : 3) : (two ? 3 : 2);
        if (cs[i].name.find("3x2") != std::string::npos)
            k = a.thorough() ? 3 : 2;
        if (cs[i].name.find("4x1") != std::string::npos)
            k = a.thorough() ? 2 : 1;
        jobs.push_back({ static_cast<int>(i), k });
    }
    // every interleaving (no preemption bound), made finite by state hashing at the choice points
    for (size_t i = 0; i < cs.size(); i++)
    {
        bool small = cs[i].threads.size() == 2 || cs[i].name.find("3x1") != std::string::npos;
        if (small || a.thorough())
            jobs.push_back({ static_cast<int>(i), 99, false, true });
    }
    // first use of the sink: every execution in a fresh process
    for (size_t i = 0; i < cs.size(); i++)
        if (cs[i].name.find("2x2") != std::string::npos || cs[i].name.find("3x1") != std::string::npos)
            jobs.push_back({ static_cast<int>(i), a.thorough() ? 2 : 1, true });
    mc::Sharded sh;
    sh.id = "C09";
    sh.nworkers = std::min<int>(a.jobs, static_cast<int>(jobs.size()));
    sh.tmpdir = a.tmpdir;
    sh.case_timeout_s = 3000;
    sh.fatal_exit_code = 97; // engine/sched.c: a scheduled thread waits on something the scheduler does not model
    sh.rerun_factor = 1;
    sh.deadline_s = a.deadline_s;
    sh.walk = [&](mc::Ctx& ctx) {
        for (auto& j : jobs)
        {
            long idx = ctx.next;
            ctx.each([&] { return mc::Desc{ mc::J().n("config", j.cfg).s("config_name", cs[j.cfg].name).n("bound", j.bound).b("first_use", j.fresh).str(), cs[j.cfg].name }; },
                     [&](mc::Report& rep) {
                         auto& c = cs[j.cfg];
                         std::string label = c.name + (j.fresh ? " (first use, fresh process per execution)" : j.prune ? " (every interleaving, state hashing)" : "");
                         // determinism: the default schedule twice, and one schedule with two forced switches twice
                         auto runner = [&](const std::vector<unsigned char>& ch) { return j.fresh ? run_schedule_fresh(c, ch) : run_schedule(c, ch); };
                         auto d1 = runner({}), d2 = runner({});
                         if (d1.out != d2.out || trace_str(d1.res) != trace_str(d2.res))
                         {
                             rep.violation("harness-nondeterministic", "C09:harness:nondeterministic", "null", "default schedule differs between two runs: '" + d1.out + "' vs '" + d2.out + "'", idx);
                             return;
                         }
                         std::vector<unsigned char> forced(static_cast<size_t>(std::min(d1.res.n_points / 2, 6)), 0);
                         if (forced.size() >= 4)
                         {
                             forced[2] = 1;
                             forced.back() = 1;
                         }
                         auto f1 = runner(forced), f2 = runner(forced);
                         if (!f1.res.diverged && (f1.out != f2.out || trace_str(f1.res) != trace_str(f2.res)))
                         {
                             rep.violation("harness-nondeterministic", "C09:harness:nondeterministic", "null", "a forced schedule differs between two runs", idx);
                             return;
                         }
                         int completed = -1;
                         long total = 0;
                         for (int k = j.prune ? 99 : 0; k <= j.bound; k = (k >= 4 && j.bound == 99) ? 99 : k + 1)
                         {
                             Explore ex;
                             ex.cfg = &c;
                             ex.fresh = j.fresh;
                             ex.prune = j.prune;
                             ex.ci = j.cfg;
                             ex.bound = k;
                             ex.rep = &rep;
                             ex.idx = idx;
                             ex.deadline = ctx.deadline;
                             ex.explore({});
                             total += ex.schedules;
                             rep.set_max("max_points_per_execution", ex.max_points);
                             if (j.prune)
                             {
                                 rep.count("distinct_program_states [" + label + "]", static_cast<long long>(ex.seen_state.size()));
                                 rep.count("continuations_pruned_by_state_hash [" + label + "]", ex.pruned);
                             }
                             rep.count("schedules k=" + std::string(k == 99 ? "unbounded" : std::to_string(k)) + " [" + label + "]", ex.schedules);
                             rep.set_max("max_distinct_outputs [" + label + "]", static_cast<long long>(ex.outputs.size()));
                             if (ex.cut)
                             {
                                 if (rep.total_violations == 0)
                                     rep.count("capped");
                                 break;
                             }
                             completed = k;
                             rep.states.insert(mc::hash(label + "k" + std::to_string(k)));
                             if (ex.outputs.size() < 2)
                                 rep.violation("harness-vacuous", "C09:harness:vacuous", "null", c.name + ": only one distinct output at bound " + std::to_string(k) + " - nothing contended", idx);
                             if (k == 99)
                                 break;
                         }
                         rep.set_max("max_completed_bound [" + label + "]", completed);
                         rep.nontrivial.insert(mc::hash(c.name));
                         rep.nontrivial.insert(mc::hash(c.name + "#"));
                         rep.sample(mc::J().s("config", c.name).n("completed_preemption_bound", completed).n("schedules", total).s("default_schedule_threads", trace_str(d1.res)).s("default_output", d1.out).str());
                     });
        }
    };
    auto rep = sh.run();
    rep.notes["rule"] = "2-3 real threads x 1-2 records (lengths 2-6, severities trace..fatal) through logger<stdout_mt|StdErrThreaded>; scheduling "
                        "points: mutex lock/unlock/trylock, every byte and three phases of every flush of the non-thread-safe buffer, thread "
                        "start/exit; (a) all schedules with <= k preemptions, k iterated; (b) every interleaving without a bound, made finite by "
                        "hashing the whole program state at every choice point (threads' progress and observation digests, mutex owners, "
                        "buffer contents) - a continuation from a state already explored with at least the same budget is not repeated; (c) "
                        "first use: every execution in a fresh process; states = distinct program states at choice points plus (configuration, "
                        "completed bound) pairs, transitions = distinct (schedule prefix, enabled set) choice points";
    mc::write_out(a, rep);
    return 0;
#endif
}

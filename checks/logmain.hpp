// main() shared by C05 and C10 (they differ only in the clauses they own)
#pragma once
#include "logmc.hpp"

namespace lm
{
inline std::vector<Case> all_cases(bool thorough)
{
    std::vector<Case> cs;
    auto stmt = [](int sev, bool tagged, char form, std::vector<int> items, int id) {
        Stmt s;
        s.sev = sev;
        s.tagged = tagged;
        s.form = form;
        s.items = items;
        s.id = id;
        return s;
    };
    // (i) filter matrix
    for (int e = 0; e < NEXPR; e++)
    {
        int nf = expr_filters(e);
        std::vector<int> grid = { 0, 1, 2, 3, 4, 5 };
        std::vector<int> grid3 = thorough ? grid : std::vector<int>{ 0, 3, 5 };
        std::vector<std::array<int, 3>> ts;
        if (nf == 0)
            ts.push_back({ 0, 0, 0 });
        else if (nf == 1)
            for (int a : grid)
                ts.push_back({ a, 0, 0 });
        else if (nf == 2)
            for (int a : grid)
                for (int b : grid)
                    ts.push_back({ a, b, 0 });
        else
            for (int a : grid3)
                for (int b : grid3)
                    for (int c : grid3)
                        ts.push_back({ a, b, c });
        for (auto& t : ts)
            for (int sev = 0; sev < 6; sev++)
                for (int tagged = 0; tagged < 2; tagged++)
                    for (char form : { 'A', 'B', 'C' })
                    {
                        Case c;
                        c.expr = e;
                        c.t[0] = t[0];
                        c.t[1] = t[1];
                        c.t[2] = t[2];
                        c.prog = { stmt(sev, tagged, form, { I_LIT, I_CALLB }, 1) };
                        cs.push_back(c);
                    }
    }
    // (i') the threshold changes between two statements of the same logger
    for (int e : { 0, 3 })
        for (int a = 0; a < 6; a++)
            for (int b = 0; b < 6; b++)
                for (int sev = 0; sev < 6; sev++)
                    for (int tagged = 0; tagged < 2; tagged++)
                        for (char form : { 'A', 'B' })
                        {
                            Case c;
                            c.expr = e;
                            c.mode = 2;
                            c.t[0] = a;
                            c.t[1] = e == 3 ? 2 : 0;
                            c.t2[0] = b;
                            c.t2[1] = e == 3 ? 2 : 0;
                            c.prog = { stmt(sev, tagged, form, { I_CALLA, I_LIT }, 1), stmt(sev, tagged, form, { I_LIT, I_CALLB }, 2) };
                            cs.push_back(c);
                        }
    // (ii) shape matrix: every item tuple of length 0..3
    for (int sev = 0; sev < 6; sev++)
        for (int tagged = 0; tagged < 2; tagged++)
            for (char form : { 'A', 'B', 'C' })
                for (int len = 0; len <= 3; len++)
                {
                    std::vector<int> ix(len, 0);
                    for (;;)
                    {
                        Case c;
                        c.expr = 0;
                        c.t[0] = sev >= 4 ? 4 : 0;
                        c.prog = { stmt(sev, tagged, form, ix, 1) };
                        cs.push_back(c);
                        int p = len - 1;
                        while (p >= 0 && ++ix[p] == I_KINDS)
                            ix[p--] = 0;
                        if (p < 0)
                            break;
                    }
                }
    // (iii) sequences of <= 3 statements over a 7-statement alphabet (program order, sticky stream state)
    {
        std::vector<Stmt> al = { stmt(1, false, 'A', { I_LIT }, 0),        stmt(3, true, 'B', { I_CALLB, I_INT }, 0), stmt(5, false, 'A', { I_HEX, I_INT, I_MARK }, 0),
                                 stmt(2, false, 'B', { I_NEST }, 0),       stmt(4, true, 'A', { I_CALLA }, 0),         stmt(0, false, 'B', { I_STR }, 0),
                                 stmt(5, false, 'B', { I_INT, I_DBL }, 0), stmt(1, true, 'A', { I_LIT }, 0) };
        // under the plain threshold filter, and under the filters that look at the tag (a rejected tagged statement followed
        // by an untagged one of the same severity, and the other way round)
        for (auto et : std::vector<std::pair<int, int>>{ { 0, 0 }, { 0, 3 }, { 14, 0 }, { 15, 1 }, { 16, 3 } })
            for (int len = 1; len <= 3; len++)
            {
                int t0 = et.second;
                std::vector<size_t> ix(len, 0);
                for (;;)
                {
                    Case c;
                    c.expr = et.first;
                    c.t[0] = t0;
                    int id = 1;
                    for (auto k : ix)
                    {
                        Stmt s = al[k];
                        s.id = id++;
                        c.prog.push_back(s);
                    }
                    cs.push_back(c);
                    if (len <= 2)
                    {
                        Case u = c; // the same program, run from a destructor during stack unwinding
                        u.mode = 3;
                        cs.push_back(u);
                    }
                    int p = len - 1;
                    while (p >= 0 && ++ix[p] == al.size())
                        ix[p--] = 0;
                    if (p < 0)
                        break;
                }
            }
    }
    // (iv) two named streams of one logger and severity alive at the same time
    {
        std::vector<int> kinds = { I_LIT, I_CALLB, I_HEX, I_INT, I_NEST };
        std::vector<std::vector<int>> tuples = { {} };
        for (int k : kinds)
            tuples.push_back({ k });
        for (int k : kinds)
            for (int l : kinds)
                tuples.push_back({ k, l });
        for (int e : { 0, 12 })
            for (int sev : { 1, 3, 5 })
                for (auto& ta : tuples)
                    for (auto& tb : tuples)
                    {
                        Case c;
                        c.expr = e;
                        c.mode = 1;
                        c.t[0] = 2;
                        c.prog = { stmt(sev, false, 'B', ta, 1), stmt(sev, true, 'B', tb, 2) };
                        cs.push_back(c);
                    }
        // (vii) the thresholds change while a named stream is open
        for (int e : { 0, 3 })
            for (int t0 : { 0, 3, 5 })
                for (int t1 : { 0, 3, 5 })
                    for (int sev = 0; sev < 6; sev++)
                        for (int tagged = 0; tagged < 2; tagged++)
                        {
                            Case c;
                            c.expr = e;
                            c.mode = 5;
                            c.t[0] = t0;
                            c.t[1] = e == 3 ? 2 : 0;
                            c.t2[0] = t1;
                            c.t2[1] = e == 3 ? 2 : 0;
                            c.prog = { stmt(sev, tagged, 'B', { I_CALLA, I_LIT, I_CALLB, I_INT }, 1) };
                            cs.push_back(c);
                        }
        // (viii) sizes: callables behind more than 64 KiB / 1 MiB of text in one statement
        for (int nlong : { 14, 220 })
            for (char form : { 'A', 'B' })
            {
                std::vector<int> items(nlong, I_LONG);
                items.push_back(I_CALLA);
                items.push_back(I_LIT);
                items.push_back(I_CALLB);
                Case c;
                c.expr = 0;
                c.t[0] = 1;
                c.prog = { stmt(4, false, form, items, 1) };
                cs.push_back(c);
            }
        // (vi) sizes: statements with many items (every kind several times), programs of many statements
        for (int nitems : { 17, 40, 130 })
            for (int sev : { 0, 3, 5 })
                for (char form : { 'A', 'B', 'C' })
                {
                    std::vector<int> items;
                    for (int i = 0; i < nitems; i++)
                        items.push_back((i * 5 + sev) % I_KINDS);
                    Case c;
                    c.expr = 0;
                    c.t[0] = 2;
                    c.prog = { stmt(sev, sev == 3, form, items, 1) };
                    cs.push_back(c);
                }
        for (int nst : { 40, 300 })
            for (int e : { 0, 15 })
            {
                Case c;
                c.expr = e;
                c.t[0] = 3;
                for (int i = 0; i < nst; i++)
                    c.prog.push_back(stmt((i * 7) % 6, i % 3 == 0, "ABC"[i % 3], { I_LIT, (i % 2 ? I_CALLA : I_CALLB), i % I_KINDS }, i + 1));
                cs.push_back(c);
            }
        // (v) two named streams with non-nested lifetimes and a whole statement in between
        for (int e : { 0, 12, 14 })
            for (int sev : { 1, 3, 5 })
                for (auto& ta : tuples)
                    for (auto& tb : tuples)
                        for (int zt = 0; zt < 2; zt++)
                        {
                            Case c;
                            c.expr = e;
                            c.mode = 4;
                            c.t[0] = 2;
                            c.prog = { stmt(sev, false, 'B', ta, 1), stmt(sev, true, 'B', tb, 2), stmt(sev, zt == 1, 'A', { I_LIT, I_CALLA }, 3) };
                            cs.push_back(c);
                        }
    }
    return cs;
}

inline int log_main(int argc, char** argv, const char* owner)
{
    auto a = mc::parse_args(argc, argv);
    if (!a.replay.empty())
    {
        auto doc = js::load(a.replay);
        const js::Value& w = doc.has("witness") ? doc.at("witness") : doc;
        if (static_cast<int>(w.n("min")) != VP_MIN)
        {
            printf("replay %s: this witness belongs to the binary compiled with minimum %d (this one: %d)\n", owner, static_cast<int>(w.n("min")), VP_MIN);
            return 0;
        }
        auto c = Case::from(w);
        auto fs = run_case(c);
        printf("replay %s: %s\n", owner, c.cls().c_str());
        int bad = 0;
        for (auto& f : fs)
        {
            bool mine = f.owner == owner;
            printf("  %s clause %s:%s\n    %s\n", mine ? "FAILED" : "(other property)", f.owner.c_str(), f.clause.c_str(), f.detail.c_str());
            bad += mine;
        }
        if (!bad)
            printf("  events equal the reference\n");
        return bad ? 1 : 0;
    }
    auto cs = all_cases(a.thorough());
    mc::Sharded sh;
    sh.id = std::string(owner) + ".min" + std::to_string(VP_MIN);
    sh.prop = owner;
    sh.nworkers = a.jobs;
    sh.tmpdir = a.tmpdir;
    sh.deadline_s = a.deadline_s;
    sh.walk = [&](mc::Ctx& ctx) {
        for (auto& c : cs)
        {
            long idx = ctx.next;
            ctx.each([&] { return mc::Desc{ c.json(), c.cls() }; },
                     [&](mc::Report& rep) {
                         auto fs = run_case(c);
                         rep.count("executions", c.prog.size());
                         rep.states.insert(mc::hash(std::to_string(VP_MIN) + "|" + std::to_string(c.expr) + "|" + std::to_string(c.t[0]) + std::to_string(c.t[1]) + std::to_string(c.t[2])));
                         rep.transitions.insert(mc::hash(c.json()));
                         bool any_enabled = false;
                         for (auto& st : c.prog)
                             any_enabled = any_enabled || enabled(c.expr, c.t, st.sev, st.tagged);
                         if (any_enabled)
                             rep.nontrivial.insert(mc::hash(c.json()));
                         rep.outcomes.insert(mc::hash(ev_list(ref_program(c.expr, c.t, c.prog))));
                         for (auto& f : fs)
                         {
                             if (f.owner != owner)
                             {
                                 rep.count("not_judged_here:" + f.owner + ":" + f.clause);
                                 continue;
                             }
                             std::string shape = std::string("min") + std::to_string(VP_MIN) + " " + expr_name(c.expr) + " mode" + std::to_string(c.mode);
                             rep.violation(f.clause, std::string(owner) + ":" + f.clause + ":" + shape, c.json(), f.detail, idx);
                         }
                         if (idx % 1499 == 0)
                             rep.sample(c.json());
                     });
        }
    };
    auto rep = sh.run();
    rep.counters["compile_time_minimum"] = VP_MIN;
    rep.counters["cases_total"] = cs.size();
    rep.notes["rule"] = "generated log programs per compile-time minimum: 17 filter expressions (3 of them look at the tag) x threshold grids x 6 severities x tag/no tag x both "
                        "forms; threshold changes between statements; every item tuple of length <= 3 over 9 item kinds; every sequence of <= 3 "
                        "statements over 8 (also run from a destructor during stack unwinding); two overlapping named streams; non-trivial = cases with at least one enabled statement";
    mc::write_out(a, rep);
    return 0;
}
} // namespace lm

// C03 - value sources are ranked: command line, then environment, then default.
// Engine B: {option, multi-option, toggle} x {given on the command line in each spelling, not given} x environment
// {not bound, bound but unset, set empty, 15 byte-level values} x {default, none} x {optional, required};
// singly and as ordered pairs of two such items in one parser (cross-talk).
#include "parser_check.hpp"

using namespace pc;

struct Config
{
    Item item;
    std::vector<std::string> argv;
    bool env_set = false;
    std::string env_value;
    std::string label;
};

static const std::vector<std::string>& env_values(bool reduced)
{
    static const std::vector<std::string> full = [] {
        std::vector<std::string> v = { "x",     "a b",      "a=b",  "--a=b", "-5",    "-",       "--",  "a;b",
                                       "-5;--x=y", "a;;b", "TRUE", "0",     "maybe", "\xff\x80", "a\nb", "--tog", "-t" };
        // sizes and particular bytes: around the short-string / small-buffer thresholds, many list elements, characters that
        // are special to other layers
        for (size_t n : { 15u, 16u, 17u, 255u, 256u, 4097u })
            v.push_back(std::string(n, 'e'));
        std::string many;
        for (int i = 0; i < 300; i++)
            many += (i ? ";" : "") + std::string("e") + std::to_string(i);
        v.push_back(many);
        v.push_back("d"); // exactly the declared default: the value still comes from the environment (provided)
        v.push_back("2");
        for (auto sp : { "%s", "$HOME", "a\\b", "a\tb", "a\rb", "\x7f", "a,b", "a:b", "\"q\"", "'q'", " lead", "trail " })
            v.push_back(sp);
        return v;
    }();
    static const std::vector<std::string> red = { "x", "--a=b", "-5", "a;b", "TRUE", "maybe" };
    return reduced ? red : full;
}

static std::vector<Config> configs(char kind, const std::string& sfx, bool reduced)
{
    std::vector<Config> out;
    std::string name = (kind == 'o' ? "opt" : kind == 'm' ? "multi" : "tog") + sfx;
    std::string sh = sfx.empty() ? std::string(1, kind) : std::string(1, static_cast<char>(toupper(kind)));
    std::string var = "VP_" + std::string(1, static_cast<char>(toupper(kind))) + sfx;
    if (sfx == "lc")
        var = std::string("vp_mixed_Case_") + kind; // variable names are case sensitive
    std::vector<std::vector<std::string>> spellings = { {} };
    if (kind == 'o')
        spellings = { {}, { "--" + name, "c" }, { "--" + name + "=c" }, { "-" + sh, "c" }, { "-" + sh + "=" } };
    if (kind == 'm')
        spellings = { {}, { "--" + name, "c" }, { "-" + sh + "=c", "--" + name + "=c2" } };
    if (kind == 't')
        spellings = { {}, { "--" + name }, { "-" + sh + sh }, { "--no-" + name } };
    for (auto& sp : spellings)
        for (int envmode = 0; envmode < 3 + static_cast<int>(env_values(reduced).size()); envmode++)
            for (int def = 0; def < 2; def++)
                for (int optional = 0; optional < (kind == 't' ? 1 : 2); optional++)
                {
                    Config c;
                    c.item.kind = kind;
                    c.item.name = name;
                    c.item.sh = sh;
                    c.item.optional = optional;
                    if (kind == 't')
                    {
                        c.item.rev = true;
                        c.item.tdef = def ? 2 : 0;
                    }
                    else if (def)
                        c.item.with_def("d");
                    if (envmode >= 1)
                        c.item.env = var;
                    if (envmode >= 2)
                    {
                        c.env_set = true;
                        c.env_value = envmode == 2 ? "" : env_values(reduced)[envmode - 3];
                    }
                    c.argv = sp;
                    out.push_back(c);
                }
    return out;
}

static bool judged(const std::string& c)
{
    return c != "positionals";
}

int main(int argc, char** argv)
{
    auto a = mc::parse_args(argc, argv);
    ParserCheck chk{ "C03", judged, true };
    if (!a.replay.empty())
        return chk.replay(a.replay);
    bool pairs_reduced = a.asan() || !a.thorough();
    auto sh = sharded(a, "C03");
    long singles = 0, pairs = 0;
    sh.walk = [&](mc::Ctx& ctx) {
        auto one = [&](const Decl& D, const std::vector<std::string>& av, const Env& env) {
            long idx = ctx.next;
            ctx.each([&] { return chk.describe(D, av, env); },
                     [&](mc::Report& rep) { chk.run_case(D, av, env, rep, idx); });
        };
        // singles, full value list
        for (char k : { 'o', 'm', 't' })
            for (auto& c : configs(k, "", false))
            {
                Decl D;
                D.items = { c.item };
                Env env;
                if (c.env_set)
                    env[c.item.env] = c.env_value;
                one(D, c.argv, env);
                singles++;
                // ambient state: the same configuration with a stale errno left by the caller (ERANGE, EINVAL, EDOM)
                for (const char* e : { "34", "22", "33" })
                {
                    Env ea = env;
                    ea[ref::AMBIENT_ERRNO] = e;
                    one(D, c.argv, ea);
                }
                // the same configuration on a parser that was used before its declaration was complete (the item, or its short
                // name, is added through a kept reference after usage() and warm-up parses) or that held another declaration
                Decl Dprev;
                Dprev.items = { Item::opt("other", "o"), Item::tog("flag", "t") };
                chk.used_before(ctx, D, Dprev, c.argv, env);
            }
        // the same with a variable name in mixed case (reduced value list)
        for (char k : { 'o', 'm', 't' })
            for (auto& c : configs(k, "lc", true))
            {
                Decl D;
                D.items = { c.item };
                Env env;
                if (c.env_set)
                    env[c.item.env] = c.env_value;
                one(D, c.argv, env);
                singles++;
            }
        // every single configuration again as the SECOND parse on one parser object, after each other configuration
        // of the same item (the ranking must not depend on what an earlier parse took from which source)
        for (char k : { 'o', 'm', 't' })
        {
            auto cs = configs(k, "", true);
            for (auto& first : cs)
                for (auto& c : cs)
                {
                    if (ctx.stop())
                        return;
                    // same declaration needed for both: compare the item declaration
                    if (item_json(first.item) != item_json(c.item))
                        continue;
                    Decl D;
                    D.items = { c.item };
                    Env e1, e2;
                    if (first.env_set)
                        e1[first.item.env] = first.env_value;
                    if (c.env_set)
                        e2[c.item.env] = c.env_value;
                    long idx = ctx.next;
                    ctx.each([&] { return chk.describe(D, c.argv, e2); },
                             [&](mc::Report& rep) { chk.run_second(D, first.argv, e1, c.argv, e2, rep, idx); });
                }
        }
        // ordered pairs (A first on the command line, then B), cross-talk between two items of any kinds
        for (char ka : { 'o', 'm', 't' })
            for (char kb : { 'o', 'm', 't' })
            {
                auto as = configs(ka, "", pairs_reduced);
                auto bs = configs(kb, "2", pairs_reduced);
                for (auto& ca : as)
                    for (auto& cb : bs)
                    {
                        if (ctx.stop())
                            return;
                        Decl D;
                        D.items = { ca.item, cb.item };
                        Env env;
                        if (ca.env_set)
                            env[ca.item.env] = ca.env_value;
                        if (cb.env_set)
                            env[cb.item.env] = cb.env_value;
                        auto av = ca.argv;
                        av.insert(av.end(), cb.argv.begin(), cb.argv.end());
                        one(D, av, env);
                        pairs++;
                    }
            }
    };
    auto rep = sh.run();
    rep.counters["env_values"] = env_values(false).size();
    rep.counters["env_values_in_pairs"] = env_values(pairs_reduced).size();
    rep.notes["rule"] = "3 kinds x command-line spellings x environment {unbound, unset, empty, byte-level values} x default x "
                        "optional/required, singly and as ordered pairs in one parser; every case is non-trivial if an environment "
                        "variable is bound or the item is given; distinct by (declaration, token classes, environment class)";
    mc::write_out(a, rep);
    return 0;
}

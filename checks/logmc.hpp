// Shared machinery of C05 / C10: generated log programs executed on the real nitro::log front end with a recording
// formatter and a recording sequence sink, compared event by event with a reference interpreter.
//
// The translation unit is compiled once per compile-time minimum severity (-DNITRO_LOG_MIN_SEVERITY=<name>
// -DVP_MIN=<0..5>).  A "program" is a list of statements; a statement has a severity, an optional tag, a syntactic
// form (A: one expression built from temporaries, B: a named stream object filled over several statements) and a list
// of streamed items (literal, std::string, int, double, callable returning const char*, callable returning
// std::string, a marker, std::hex, a callable that itself logs).  Expected events: for an enabled statement each
// callable is called exactly once at its position, then one format event, then one sink event per member of the
// sequence sink in declaration order; for a disabled one nothing at all.
#pragma once

#include "../engine/json.hpp"
#include "../engine/mc.hpp"

#ifdef VP_LATE_DEFINE
// The compile-time minimum is defined by the program itself, after some nitro log headers have already been seen
// (a wrapper header typically does this); it must be the one in effect for every statement below.
#include <nitro/log/severity.hpp>
#include <cstdint>
#include <limits>
#include <nitro/log/filter/severity_filter.hpp>
#include <nitro/log/sink/sequence.hpp>
#define NITRO_LOG_MIN_SEVERITY VP_LATE_DEFINE
#endif
#include <nitro/log/attribute/message.hpp>
#include <nitro/log/attribute/severity.hpp>
#include <nitro/log/attribute/tag.hpp>
#include <nitro/log/attribute/timestamp.hpp>
#include <nitro/log/filter/and_filter.hpp>
#include <nitro/log/filter/not_filter.hpp>
#include <nitro/log/filter/null_filter.hpp>
#include <nitro/log/filter/or_filter.hpp>
#include <nitro/log/filter/severity_filter.hpp>
#include <nitro/log/log.hpp>
#include <nitro/log/sink/sequence.hpp>

#include <cstring>
#include <iomanip>
#include <sstream>

#ifndef VP_MIN
#error "VP_MIN (0..5) must be defined together with NITRO_LOG_MIN_SEVERITY"
#endif

namespace lm
{
namespace nl = nitro::log;
using sev_t = nl::severity_level;

// ---------------------------------------------------------------------------------------------
// event log

struct Event
{
    char kind; // C callable called, M marker streamed, F format, S sink
    int a = 0; // C/M: id ; S: member index
    int sev = -1;
    std::string tag, text;
    std::string str() const
    {
        switch (kind)
        {
        case 'C':
            return "call#" + std::to_string(a);
        case 'M':
            return "marker#" + std::to_string(a);
        case 'F':
            return "format(sev" + std::to_string(sev) + ",tag'" + tag + "','" + text + "')";
        default:
            return "sink" + std::to_string(a) + "(sev" + std::to_string(sev) + ",'" + text + "')";
        }
    }
    bool operator==(const Event& o) const
    {
        return kind == o.kind && a == o.a && sev == o.sev && tag == o.tag && text == o.text;
    }
};
inline std::vector<Event>& events()
{
    static std::vector<Event> e;
    return e;
}
inline bool& recording()
{
    static bool r = true;
    return r;
}

using record = nl::record<nl::tag_attribute, nl::message_attribute, nl::severity_attribute, nl::timestamp_attribute>;

template <typename Record>
struct RecFormatter
{
    std::string format(Record& r)
    {
        Event e{ 'F' };
        e.sev = static_cast<int>(r.severity());
        e.tag = r.tag();
        e.text = r.message();
        events().push_back(e);
        return std::to_string(e.sev) + "|" + e.tag + "|" + e.text;
    }
};
template <int K>
struct RecSink
{
    void sink(sev_t s, const std::string& formatted)
    {
        Event e{ 'S' };
        e.a = K;
        e.sev = static_cast<int>(s);
        e.text = formatted;
        events().push_back(e);
    }
};
// the middle member takes the formatted record by value: a sequence that hands the same string on as an rvalue would
// leave the members behind it with an empty record
template <int K>
struct RecSinkByValue
{
    void sink(sev_t s, std::string formatted)
    {
        Event e{ 'S' };
        e.a = K;
        e.sev = static_cast<int>(s);
        e.text = std::move(formatted);
        events().push_back(e);
    }
};
using Sink = nl::sink::sequence<RecSink<0>, RecSinkByValue<1>, RecSink<2>>;

// ---------------------------------------------------------------------------------------------
// filter expressions (each needs a logger type of its own)

namespace f = nl::filter;
template <typename R>
using S0 = f::severity_filter<R, 0>;
template <typename R>
using S1 = f::severity_filter<R, 1>;
template <typename R>
using S2 = f::severity_filter<R, 2>;

template <typename R> using E0 = S0<R>;
template <typename R> using E1 = f::not_filter<S0<R>>;
template <typename R> using E2 = f::not_filter<f::not_filter<S0<R>>>;
template <typename R> using E3 = f::and_filter<S0<R>, S1<R>>;
template <typename R> using E4 = f::or_filter<S0<R>, S1<R>>;
template <typename R> using E5 = f::and_filter<S0<R>, f::not_filter<S1<R>>>;
template <typename R> using E6 = f::or_filter<f::not_filter<S0<R>>, S1<R>>;
template <typename R> using E7 = f::not_filter<f::and_filter<S0<R>, S1<R>>>;
template <typename R> using E8 = f::not_filter<f::or_filter<S0<R>, S1<R>>>;
template <typename R> using E9 = f::and_filter<f::or_filter<S0<R>, S1<R>>, S2<R>>;
template <typename R> using E10 = f::or_filter<f::and_filter<S0<R>, S1<R>>, S2<R>>;
template <typename R> using E11 = f::and_filter<f::not_filter<f::not_filter<S0<R>>>, S1<R>>;
template <typename R> using E12 = f::null_filter<R>;
template <typename R> using E13 = f::not_filter<f::null_filter<R>>;
// a filter that looks at the tag of the record (a muted component): the decision of the runtime filter is a function of the
// whole record as the statement wrote it, not only of its severity
template <typename R>
class TagMute
{
public:
    typedef R record_type;
    bool filter(R& r) const
    {
        return r.tag() != "tg";
    }
};
template <typename R> using E14 = TagMute<R>;
template <typename R> using E15 = f::and_filter<S0<R>, TagMute<R>>;
template <typename R> using E16 = f::or_filter<f::not_filter<TagMute<R>>, S0<R>>;

const int NEXPR = 17;
inline const char* expr_name(int e)
{
    static const char* n[] = { "S0", "!S0", "!!S0", "S0&S1", "S0|S1", "S0&!S1", "!S0|S1", "!(S0&S1)", "!(S0|S1)", "(S0|S1)&S2", "(S0&S1)|S2", "!(!S0)&S1", "null", "!null", "untagged", "S0&untagged", "tagged|S0" };
    return n[e];
}
inline int expr_filters(int e)
{
    static const int n[] = { 1, 1, 1, 2, 2, 2, 2, 2, 2, 3, 3, 2, 0, 0, 0, 1, 1 };
    return n[e];
}
// boring interpreter of the expression
inline bool expr_eval(int e, int s, const int t[3], bool tagged)
{
    bool a = s >= t[0], b = s >= t[1], c = s >= t[2];
    switch (e)
    {
    case 0: return a;
    case 1: return !a;
    case 2: return a;
    case 3: return a && b;
    case 4: return a || b;
    case 5: return a && !b;
    case 6: return !a || b;
    case 7: return !(a && b);
    case 8: return !(a || b);
    case 9: return (a || b) && c;
    case 10: return (a && b) || c;
    case 11: return a && b;
    case 12: return true;
    case 13: return false;
    case 14: return !tagged;
    case 15: return a && !tagged;
    default: return tagged || a;
    }
}
// a second record type with filters of the same instance numbers: its thresholds are its own
using record2 = nl::record<nl::message_attribute, nl::severity_attribute>;
inline void set_thresholds(const int t[3])
{
    S0<record>::set_severity(static_cast<sev_t>(t[0]));
    S1<record>::set_severity(static_cast<sev_t>(t[1]));
    S2<record>::set_severity(static_cast<sev_t>(t[2]));
    // configured afterwards, to the mirrored values: must not reach the filters of `record`
    S0<record2>::set_severity(static_cast<sev_t>(5 - t[0]));
    S1<record2>::set_severity(static_cast<sev_t>(5 - t[1]));
    S2<record2>::set_severity(static_cast<sev_t>(5 - t[2]));
}

template <template <typename> class F>
using Logger = nl::logger<record, RecFormatter, Sink, F>;

// ---------------------------------------------------------------------------------------------
// statements

struct Stmt
{
    int sev = 0;
    bool tagged = false;
    char form = 'A';        // 'A' temporaries chain, 'B' named stream
    std::vector<int> items; // kinds, see below; callable / marker ids are position based
    int id = 0;             // statement number inside its program (ids of callables = id*10 + position)
    std::string str() const
    {
        std::string s = std::string("sev") + std::to_string(sev) + (tagged ? "[tag]" : "") + form + "(";
        for (size_t i = 0; i < items.size(); i++)
            s += (i ? "," : "") + std::to_string(items[i]);
        return s + ")";
    }
};
// item kinds
enum
{
    I_LIT,
    I_STR,
    I_INT,
    I_DBL,
    I_CALLA,
    I_CALLB,
    I_MARK,
    I_HEX,
    I_NEST, // callable that itself logs (same logger, same severity) before returning its text
    I_NULL, // a null const char*: puts the statement's stream into a failed state (later insertions print nothing,
            // but callables streamed afterwards are still evaluated and the record is still emitted)
    I_POLY, // an object of a derived class streamed through a reference to its base (the text comes from a virtual)
    I_LONG, // a text of 5000 characters (beyond any small buffer)
    I_BIGU, // the largest unsigned 64-bit value (above every signed type's range)
    I_MINI, // the smallest signed 64-bit value
    I_KINDS
};

struct Shape
{
    virtual ~Shape() = default;
    virtual void print(std::ostream& o) const
    {
        o << "shape";
    }
};
struct Circle : Shape
{
    void print(std::ostream& o) const override
    {
        o << "circle(r=2)";
    }
};
inline std::ostream& operator<<(std::ostream& o, const Shape& s)
{
    s.print(o);
    return o;
}
inline const std::string& long_text()
{
    static const std::string t = [] {
        std::string x;
        for (int i = 0; x.size() < 5000; i++)
            x += "long" + std::to_string(i) + " ";
        return x;
    }();
    return t;
}
inline const Shape& poly()
{
    static const Circle c;
    return c;
}

struct CallA
{
    int id;
    const char* operator()() const
    {
        if (recording())
            events().push_back(Event{ 'C', id });
        return "<a>";
    }
};
struct CallB
{
    int id;
    std::string operator()() const
    {
        if (recording())
            events().push_back(Event{ 'C', id });
        return "<b" + std::to_string(id) + ">";
    }
};
struct Marker
{
    int id;
};
inline std::ostream& operator<<(std::ostream& o, const Marker& m)
{
    if (recording())
        events().push_back(Event{ 'M', m.id });
    return o << "<m" << m.id << ">";
}
template <typename L, int SEV>
struct CallNest
{
    int id;
    std::string operator()() const
    {
        if (recording())
        {
            events().push_back(Event{ 'C', id });
            // a complete inner statement of the same logger and severity while the outer one is being built
            switch (SEV)
            {
            case 0: L::trace() << "inner" << id; break;
            case 1: L::debug() << "inner" << id; break;
            case 2: L::info() << "inner" << id; break;
            case 3: L::warn() << "inner" << id; break;
            case 4: L::error() << "inner" << id; break;
            default: L::fatal() << "inner" << id; break;
            }
        }
        return "<n>";
    }
};

// one `s << item;` statement on a named stream
template <typename L, int SEV, typename Stream>
void feed_one(Stream& s, const Stmt& st, size_t p)
{
    int id = st.id * 10 + static_cast<int>(p);
    switch (st.items[p])
    {
    case I_LIT: s << "lit"; break;
    case I_STR: s << std::string("str"); break;
    case I_INT: s << 42; break;
    case I_DBL: s << 2.5; break;
    case I_CALLA: s << CallA{ id }; break;
    case I_CALLB: s << CallB{ id }; break;
    case I_MARK: s << Marker{ id }; break;
    case I_HEX: s << std::hex; break;
    case I_NULL: s << static_cast<const char*>(nullptr); break;
    case I_POLY: s << poly(); break;
    case I_LONG: s << long_text(); break;
    case I_BIGU: s << std::numeric_limits<std::uint64_t>::max(); break;
    case I_MINI: s << std::numeric_limits<std::int64_t>::min(); break;
    default: s << CallNest<L, SEV>{ id }; break;
    }
}
// form B: named stream, one `s << item;` statement per item (from position `from` on)
template <typename L, int SEV, typename Stream>
void feed_named(Stream& s, const Stmt& st, size_t from = 0)
{
    for (size_t p = from; p < st.items.size(); p++)
        feed_one<L, SEV>(s, st, p);
}
// form A: temporaries; every insertion consumes the previous temporary and yields a new one, exactly like
// `L::sev(tag) << a << b << c;`
template <typename L, int SEV, typename Stream>
void feed_chain(Stream&& s, const Stmt& st, size_t p)
{
    if (p == st.items.size())
        return; // the last temporary dies here: the record is emitted
    int id = st.id * 10 + static_cast<int>(p);
    switch (st.items[p])
    {
    case I_LIT: feed_chain<L, SEV>(std::move(s) << "lit", st, p + 1); break;
    case I_STR: feed_chain<L, SEV>(std::move(s) << std::string("str"), st, p + 1); break;
    case I_INT: feed_chain<L, SEV>(std::move(s) << 42, st, p + 1); break;
    case I_DBL: feed_chain<L, SEV>(std::move(s) << 2.5, st, p + 1); break;
    case I_CALLA: feed_chain<L, SEV>(std::move(s) << CallA{ id }, st, p + 1); break;
    case I_CALLB: feed_chain<L, SEV>(std::move(s) << CallB{ id }, st, p + 1); break;
    case I_MARK: feed_chain<L, SEV>(std::move(s) << Marker{ id }, st, p + 1); break;
    case I_HEX: feed_chain<L, SEV>(std::move(s) << std::hex, st, p + 1); break;
    case I_NULL: feed_chain<L, SEV>(std::move(s) << static_cast<const char*>(nullptr), st, p + 1); break;
    case I_POLY: feed_chain<L, SEV>(std::move(s) << poly(), st, p + 1); break;
    case I_LONG: feed_chain<L, SEV>(std::move(s) << long_text(), st, p + 1); break;
    case I_BIGU: feed_chain<L, SEV>(std::move(s) << std::numeric_limits<std::uint64_t>::max(), st, p + 1); break;
    case I_MINI: feed_chain<L, SEV>(std::move(s) << std::numeric_limits<std::int64_t>::min(), st, p + 1); break;
    default: feed_chain<L, SEV>(std::move(s) << CallNest<L, SEV>{ id }, st, p + 1); break;
    }
}

// The tag of a named stream is handed over in a caller-owned buffer that is overwritten as soon as the statement has
// been issued; the delivered tag must be the text at the time of the call.
inline char* tag_buffer()
{
    static char buf[8];
    return buf;
}
template <typename L, int SEV>
auto make_stream_buf()
{
    char* b = tag_buffer();
    strcpy(b, "tg");
    if constexpr (SEV == 0)
        return L::trace(b);
    else if constexpr (SEV == 1)
        return L::debug(b);
    else if constexpr (SEV == 2)
        return L::info(b);
    else if constexpr (SEV == 3)
        return L::warn(b);
    else if constexpr (SEV == 4)
        return L::error(b);
    else
        return L::fatal(b);
}

template <typename L, int SEV>
auto make_stream(bool tagged)
{
    if constexpr (SEV == 0)
        return tagged ? L::trace("tg") : L::trace();
    else if constexpr (SEV == 1)
        return tagged ? L::debug("tg") : L::debug();
    else if constexpr (SEV == 2)
        return tagged ? L::info("tg") : L::info();
    else if constexpr (SEV == 3)
        return tagged ? L::warn("tg") : L::warn();
    else if constexpr (SEV == 4)
        return tagged ? L::error("tg") : L::error();
    else
        return tagged ? L::fatal("tg") : L::fatal();
}

template <typename L, int SEV>
void run_stmt_sev(const Stmt& st)
{
    // the compile-time decision is part of the property: a statement below the minimum has the discarding stream type
    using stream_t = decltype(make_stream<L, SEV>(false));
    static_assert(std::is_same<stream_t, nl::detail::null_stream>::value == (SEV < VP_MIN),
                  "a statement below the compile-time minimum must have the null stream type, one at or above it must not");
    if (st.form == 'A')
        feed_chain<L, SEV>(make_stream<L, SEV>(st.tagged), st, 0);
    else if (st.form == 'C' && !st.items.empty())
    {
        // a named stream bound by reference to the result of the first insertion:
        //     auto&& s = L::sev(tag) << first;   s << second;   s << third;
        // (the stream returned by the insertion is a temporary whose lifetime the reference extends)
        int id = st.id * 10;
#define VP_BOUND(ITEM)                                                                                                                    \
    {                                                                                                                                     \
        auto&& s = make_stream<L, SEV>(st.tagged) << ITEM;                                                                                \
        feed_named<L, SEV>(s, st, 1);                                                                                                     \
    }                                                                                                                                     \
    break;
        switch (st.items[0])
        {
        case I_LIT: VP_BOUND("lit")
        case I_STR: VP_BOUND(std::string("str"))
        case I_INT: VP_BOUND(42)
        case I_DBL: VP_BOUND(2.5)
        case I_CALLA: VP_BOUND(CallA{ id })
        case I_CALLB: VP_BOUND(CallB{ id })
        case I_MARK: VP_BOUND(Marker{ id })
        case I_HEX: VP_BOUND(std::hex)
        case I_NULL: VP_BOUND(static_cast<const char*>(nullptr))
        case I_POLY: VP_BOUND(poly())
        case I_LONG: VP_BOUND(long_text())
        case I_BIGU: VP_BOUND(std::numeric_limits<std::uint64_t>::max())
        case I_MINI: VP_BOUND(std::numeric_limits<std::int64_t>::min())
        default: VP_BOUND((CallNest<L, SEV>{ id }))
        }
#undef VP_BOUND
    }
    else if (st.tagged)
    {
        auto s = make_stream_buf<L, SEV>();
        strcpy(tag_buffer(), "XX"); // the caller reuses its buffer while the stream object is still open
        feed_named<L, SEV>(s, st);
    }
    else
    {
        auto s = make_stream<L, SEV>(false);
        feed_named<L, SEV>(s, st);
    }
}
template <typename L>
void run_stmt(const Stmt& st)
{
    switch (st.sev)
    {
    case 0: run_stmt_sev<L, 0>(st); break;
    case 1: run_stmt_sev<L, 1>(st); break;
    case 2: run_stmt_sev<L, 2>(st); break;
    case 3: run_stmt_sev<L, 3>(st); break;
    case 4: run_stmt_sev<L, 4>(st); break;
    default: run_stmt_sev<L, 5>(st); break;
    }
}
inline void run_stmt_expr(int e, const Stmt& st)
{
    switch (e)
    {
    case 0: run_stmt<Logger<E0>>(st); break;
    case 1: run_stmt<Logger<E1>>(st); break;
    case 2: run_stmt<Logger<E2>>(st); break;
    case 3: run_stmt<Logger<E3>>(st); break;
    case 4: run_stmt<Logger<E4>>(st); break;
    case 5: run_stmt<Logger<E5>>(st); break;
    case 6: run_stmt<Logger<E6>>(st); break;
    case 7: run_stmt<Logger<E7>>(st); break;
    case 8: run_stmt<Logger<E8>>(st); break;
    case 9: run_stmt<Logger<E9>>(st); break;
    case 10: run_stmt<Logger<E10>>(st); break;
    case 11: run_stmt<Logger<E11>>(st); break;
    case 12: run_stmt<Logger<E12>>(st); break;
    case 13: run_stmt<Logger<E13>>(st); break;
    case 14: run_stmt<Logger<E14>>(st); break;
    case 15: run_stmt<Logger<E15>>(st); break;
    default: run_stmt<Logger<E16>>(st); break;
    }
}

// two named streams of the same logger alive at the same time, filled alternately (sev fixed per call)
template <typename L, int SEV>
void overlapping(const Stmt& a, const Stmt& b)
{
    auto s1 = make_stream<L, SEV>(a.tagged);
    auto s2 = make_stream<L, SEV>(b.tagged);
    size_t n = std::max(a.items.size(), b.items.size());
    for (size_t p = 0; p < n; p++)
    {
        if (p < a.items.size())
            feed_one<L, SEV>(s1, a, p);
        if (p < b.items.size())
            feed_one<L, SEV>(s2, b, p);
    }
    // s2 is destroyed first, then s1
}
template <typename L, int SEV>
void run_stmt_sev(const Stmt& st);
// two named streams whose lifetimes are NOT nested (e.g. one open record per request kept in a map): a is opened, b is
// opened, a is completed and closed while b is half filled, a whole statement z is issued, b is completed and closed
template <typename L, int SEV>
void non_nested(const Stmt& a, const Stmt& b, const Stmt& z)
{
    using S = decltype(make_stream<L, SEV>(false));
    std::unique_ptr<S> s1(new S(make_stream<L, SEV>(a.tagged)));
    std::unique_ptr<S> s2(new S(make_stream<L, SEV>(b.tagged)));
    for (size_t p = 0; p < a.items.size(); p++)
        feed_one<L, SEV>(*s1, a, p);
    size_t half = (b.items.size() + 1) / 2;
    for (size_t p = 0; p < half; p++)
        feed_one<L, SEV>(*s2, b, p);
    s1.reset();
    run_stmt_sev<L, SEV>(z);
    for (size_t p = half; p < b.items.size(); p++)
        feed_one<L, SEV>(*s2, b, p);
    s2.reset();
}

// ---------------------------------------------------------------------------------------------
// reference interpreter

inline bool enabled(int e, const int t[3], int sev, bool tagged)
{
    return sev >= VP_MIN && expr_eval(e, sev, t, tagged);
}

// message text and the events produced while the items are streamed
inline void ref_items(int e, const int t[3], const Stmt& st, std::vector<Event>& ev, std::string& msg)
{
    std::ostringstream o;
    for (size_t p = 0; p < st.items.size(); p++)
    {
        int id = st.id * 10 + static_cast<int>(p);
        switch (st.items[p])
        {
        case I_LIT: o << "lit"; break;
        case I_STR: o << std::string("str"); break;
        case I_INT: o << 42; break;
        case I_DBL: o << 2.5; break;
        case I_CALLA:
            ev.push_back(Event{ 'C', id });
            o << "<a>";
            break;
        case I_CALLB:
            ev.push_back(Event{ 'C', id });
            o << "<b" + std::to_string(id) + ">"; // the callable builds its text itself (always decimal)
            break;
        case I_MARK:
            ev.push_back(Event{ 'M', id });
            o << "<m" << id << ">"; // (the marker prints its id with whatever base is active, like the implementation)
            break;
        case I_HEX: o << std::hex; break;
        case I_NULL: o << static_cast<const char*>(nullptr); break;
        case I_POLY: o << "circle(r=2)"; break;
        case I_LONG: o << long_text(); break;
        case I_BIGU: o << std::numeric_limits<std::uint64_t>::max(); break; // (numbers follow the base the statement set, like the implementation's stream)
        case I_MINI: o << std::numeric_limits<std::int64_t>::min(); break;
        default:
        {
            ev.push_back(Event{ 'C', id });
            // the inner statement is complete before the outer continues (it is enabled, same logger and severity)
            Event fe{ 'F' };
            fe.sev = st.sev;
            fe.text = "inner" + std::to_string(id);
            ev.push_back(fe);
            for (int k = 0; k < 3; k++)
            {
                Event se{ 'S' };
                se.a = k;
                se.sev = st.sev;
                se.text = std::to_string(st.sev) + "||" + fe.text;
                ev.push_back(se);
            }
            o << "<n>";
            break;
        }
        }
    }
    (void)e;
    (void)t;
    msg = o.str();
}
inline void ref_emit(const Stmt& st, const std::string& msg, std::vector<Event>& ev)
{
    Event fe{ 'F' };
    fe.sev = st.sev;
    fe.tag = st.tagged ? "tg" : "";
    fe.text = msg;
    ev.push_back(fe);
    for (int k = 0; k < 3; k++)
    {
        Event se{ 'S' };
        se.a = k;
        se.sev = st.sev;
        se.text = std::to_string(st.sev) + "|" + fe.tag + "|" + msg;
        ev.push_back(se);
    }
}
inline std::vector<Event> ref_program(int e, const int t[3], const std::vector<Stmt>& prog)
{
    std::vector<Event> ev;
    for (auto& st : prog)
    {
        if (!enabled(e, t, st.sev, st.tagged))
            continue;
        std::string msg;
        ref_items(e, t, st, ev, msg);
        ref_emit(st, msg, ev);
    }
    return ev;
}

// ---------------------------------------------------------------------------------------------
// comparison with ownership of clauses

struct Finding
{
    std::string owner, clause, detail;
};

inline std::string ev_list(const std::vector<Event>& v)
{
    std::string s;
    for (auto& e : v)
        s += (s.empty() ? "" : " ; ") + e.str();
    return s.empty() ? "(nothing)" : s;
}
inline std::vector<Event> without_calls(const std::vector<Event>& v)
{
    std::vector<Event> o;
    for (auto& e : v)
        if (e.kind != 'C')
            o.push_back(e);
    return o;
}
inline void compare(const std::vector<Event>& want, const std::vector<Event>& got, const std::string& ctx, std::vector<Finding>& out)
{
    if (want == got)
        return;
    auto w2 = without_calls(want), g2 = without_calls(got);
    if (w2 != g2)
    {
        // what reached formatter / sink is wrong: C05
        std::string clause = "records-differ";
        size_t wf = 0, gf = 0;
        for (auto& e : w2)
            wf += e.kind == 'F';
        for (auto& e : g2)
            gf += e.kind == 'F';
        if (gf > wf)
            clause = "record-delivered-although-disabled-or-twice";
        else if (gf < wf)
            clause = "enabled-record-not-delivered";
        else
        {
            // same number of records: content or order
            bool same_multiset = true;
            auto a = w2, b = g2;
            auto key = [](const Event& e) { return e.str(); };
            std::vector<std::string> ka, kb;
            for (auto& e : a)
                ka.push_back(key(e));
            for (auto& e : b)
                kb.push_back(key(e));
            std::sort(ka.begin(), ka.end());
            std::sort(kb.begin(), kb.end());
            same_multiset = ka == kb;
            clause = same_multiset ? "records-or-sink-members-out-of-order" : "record-content-altered";
        }
        out.push_back({ "C05", clause, ctx + "\n      expected: " + ev_list(w2) + "\n      observed: " + ev_list(g2) });
    }
    // callable evaluation: C10
    std::vector<std::string> wc, gc;
    for (auto& e : want)
        if (e.kind == 'C')
            wc.push_back(e.str());
    for (auto& e : got)
        if (e.kind == 'C')
            gc.push_back(e.str());
    if (wc != gc)
    {
        std::string clause = gc.size() > wc.size() ? "callable-evaluated-although-disabled-or-twice" : gc.size() < wc.size() ? "callable-of-emitted-record-not-evaluated" : "callables-evaluated-in-wrong-order";
        out.push_back({ "C10", clause, ctx + "\n      expected calls: " + ev_list(want) + "\n      observed      : " + ev_list(got) });
    }
    else if (w2 == g2)
        out.push_back({ "C10", "callable-not-evaluated-at-the-point-where-it-is-streamed", ctx + "\n      expected: " + ev_list(want) + "\n      observed: " + ev_list(got) });
}

// ---------------------------------------------------------------------------------------------
// a case = (expression, thresholds, program, mode)

struct Case
{
    int expr = 0;
    int t[3] = { 0, 0, 0 };
    std::vector<Stmt> prog;
    int mode = 0; // 0 sequential statements, 1 two overlapping named streams (prog[0], prog[1], same severity),
                  // 2 thresholds change to t2 between prog[0] and prog[1],
                  // 3 the statements run from a destructor while an exception is propagating (stack unwinding)
                  // 4 two named streams with non-nested lifetimes and a whole statement in between (prog[0..2])
                  // 5 the thresholds change to t2 while the named stream of prog[0] is open (after half of its items)
    int t2[3] = { 0, 0, 0 };
    std::string json() const
    {
        std::string p = "[";
        for (size_t i = 0; i < prog.size(); i++)
        {
            std::string it = "[";
            for (size_t k = 0; k < prog[i].items.size(); k++)
                it += (k ? "," : "") + std::to_string(prog[i].items[k]);
            it += "]";
            p += (i ? "," : "") + mc::J().n("sev", prog[i].sev).b("tagged", prog[i].tagged).s("form", std::string(1, prog[i].form)).raw("items", it).str();
        }
        p += "]";
        return mc::J().n("min", VP_MIN).n("expr", expr).s("expr_name", expr_name(expr)).raw("thresholds", "[" + std::to_string(t[0]) + "," + std::to_string(t[1]) + "," + std::to_string(t[2]) + "]").raw("thresholds2", "[" + std::to_string(t2[0]) + "," + std::to_string(t2[1]) + "," + std::to_string(t2[2]) + "]").raw("program", p).n("mode", mode).str();
    }
    static Case from(const js::Value& w)
    {
        Case c;
        c.expr = static_cast<int>(w.n("expr"));
        auto& th = w.at("thresholds").arr;
        for (int i = 0; i < 3; i++)
            c.t[i] = static_cast<int>(th[i].num);
        c.mode = static_cast<int>(w.n("mode"));
        if (w.has("thresholds2"))
            for (int i = 0; i < 3; i++)
                c.t2[i] = static_cast<int>(w.at("thresholds2").arr[i].num);
        int id = 1;
        for (auto& s : w.at("program").arr)
        {
            Stmt st;
            st.sev = static_cast<int>(s.n("sev"));
            st.tagged = s.flag("tagged");
            st.form = s.s("form")[0];
            for (auto& i : s.at("items").arr)
                st.items.push_back(static_cast<int>(i.num));
            st.id = id++;
            c.prog.push_back(st);
        }
        return c;
    }
    std::string cls() const
    {
        std::string s = std::string("min") + std::to_string(VP_MIN) + " " + expr_name(expr) + (mode == 1 ? " overlapping" : mode == 2 ? " threshold-change" : mode == 3 ? " during-unwinding" : mode == 4 ? " non-nested-streams" : mode == 5 ? " threshold-change-while-open" : "");
        for (auto& st : prog)
            s += " " + st.str();
        return s;
    }
};

// the thresholds change while a named stream is open
template <typename L, int SEV>
void change_while_open(const Stmt& a, const int t2[3])
{
    auto s = make_stream<L, SEV>(a.tagged);
    size_t half = (a.items.size() + 1) / 2;
    for (size_t p = 0; p < half; p++)
        feed_one<L, SEV>(s, a, p);
    set_thresholds(t2);
    for (size_t p = half; p < a.items.size(); p++)
        feed_one<L, SEV>(s, a, p);
}
template <int SEV>
void run_change_expr(int e, const Stmt& a, const int t2[3])
{
    switch (e)
    {
    case 0: change_while_open<Logger<E0>, SEV>(a, t2); break;
    default: change_while_open<Logger<E3>, SEV>(a, t2); break;
    }
}
template <int SEV>
void run_nonnested_expr(int e, const Stmt& a, const Stmt& b, const Stmt& z)
{
    switch (e)
    {
    case 0: non_nested<Logger<E0>, SEV>(a, b, z); break;
    case 14: non_nested<Logger<E14>, SEV>(a, b, z); break;
    default: non_nested<Logger<E12>, SEV>(a, b, z); break;
    }
}
// events caused by streaming one item
inline size_t item_event_count(int k)
{
    return (k == I_CALLA || k == I_CALLB || k == I_MARK) ? 1 : (k == I_NEST ? 5 : 0);
}

template <int SEV>
void run_overlap_expr(int e, const Stmt& a, const Stmt& b)
{
    switch (e)
    {
    case 0: overlapping<Logger<E0>, SEV>(a, b); break;
    case 3: overlapping<Logger<E3>, SEV>(a, b); break;
    default: overlapping<Logger<E12>, SEV>(a, b); break;
    }
}

inline std::vector<Finding> run_case(const Case& c)
{
    std::vector<Finding> out;
    set_thresholds(c.t);
    events().clear();
    recording() = true;
    std::vector<Event> want;
    if (c.mode == 0)
    {
        for (auto& st : c.prog)
            run_stmt_expr(c.expr, st);
        want = ref_program(c.expr, c.t, c.prog);
    }
    else if (c.mode == 3)
    {
        struct Guard
        {
            const Case& c;
            ~Guard()
            {
                for (auto& st : c.prog)
                    run_stmt_expr(c.expr, st);
            }
        };
        try
        {
            Guard g{ c };
            throw 42; // the guard's destructor logs while this exception is in flight
        }
        catch (int)
        {
        }
        want = ref_program(c.expr, c.t, c.prog);
    }
    else if (c.mode == 5)
    {
        const Stmt& a = c.prog[0];
        switch (a.sev)
        {
        case 0: run_change_expr<0>(c.expr, a, c.t2); break;
        case 1: run_change_expr<1>(c.expr, a, c.t2); break;
        case 2: run_change_expr<2>(c.expr, a, c.t2); break;
        case 3: run_change_expr<3>(c.expr, a, c.t2); break;
        case 4: run_change_expr<4>(c.expr, a, c.t2); break;
        default: run_change_expr<5>(c.expr, a, c.t2); break;
        }
        // The statement does not say at which moment of an open statement the filter is asked.  What it does say is that
        // lazy evaluation and delivery go together: either the statement is an emitted record (every callable once, one
        // record) or it is a rejected one (nothing at all).  Both complete outcomes are accepted when the two thresholds
        // disagree; a statement whose callables ran but which was not delivered (or the reverse) is neither.
        auto w1 = ref_program(c.expr, c.t, { a });
        auto w2 = ref_program(c.expr, c.t2, { a });
        want = events() == w2 ? w2 : w1;
        // lazy evaluation and delivery go together (C10's half of the sentence): callables that ran for a statement that
        // was not delivered, or a delivered statement whose callables did not run
        {
            long calls = 0, delivered = 0;
            for (auto& e : events())
            {
                calls += e.kind == 'C';
                delivered += e.kind == 'F';
            }
            if (a.sev >= VP_MIN && (calls > 0) != (delivered > 0))
                out.push_back({ "C10", delivered ? "callable-of-emitted-record-not-evaluated" : "callable-evaluated-although-disabled-or-twice",
                                c.cls() + ": " + std::to_string(calls) + " callable(s) evaluated, " + std::to_string(delivered) +
                                    " record(s) delivered - the thresholds changed while the statement was open; observed: " + ev_list(events()) });
        }
    }
    else if (c.mode == 4)
    {
        const Stmt &a = c.prog[0], &b = c.prog[1], &z = c.prog[2];
        switch (a.sev)
        {
        case 0: run_nonnested_expr<0>(c.expr, a, b, z); break;
        case 1: run_nonnested_expr<1>(c.expr, a, b, z); break;
        case 2: run_nonnested_expr<2>(c.expr, a, b, z); break;
        case 3: run_nonnested_expr<3>(c.expr, a, b, z); break;
        case 4: run_nonnested_expr<4>(c.expr, a, b, z); break;
        default: run_nonnested_expr<5>(c.expr, a, b, z); break;
        }
        // reference: a's items, the first half of b's items, record a, statement z, the rest of b's items, record b
        bool ea = enabled(c.expr, c.t, a.sev, a.tagged), eb = enabled(c.expr, c.t, b.sev, b.tagged);
        std::vector<Event> eva, evb;
        std::string ma, mb;
        if (ea)
            ref_items(c.expr, c.t, a, eva, ma);
        if (eb)
            ref_items(c.expr, c.t, b, evb, mb);
        want = eva;
        size_t half = (b.items.size() + 1) / 2, nb = 0;
        for (size_t p = 0; p < half; p++)
            nb += item_event_count(b.items[p]);
        if (eb)
            want.insert(want.end(), evb.begin(), evb.begin() + std::min(nb, evb.size()));
        if (ea)
            ref_emit(a, ma, want);
        auto wz = ref_program(c.expr, c.t, { z });
        want.insert(want.end(), wz.begin(), wz.end());
        if (eb)
        {
            want.insert(want.end(), evb.begin() + std::min(nb, evb.size()), evb.end());
            ref_emit(b, mb, want);
        }
    }
    else if (c.mode == 2)
    {
        run_stmt_expr(c.expr, c.prog[0]);
        set_thresholds(c.t2);
        run_stmt_expr(c.expr, c.prog[1]);
        want = ref_program(c.expr, c.t, { c.prog[0] });
        auto w2 = ref_program(c.expr, c.t2, { c.prog[1] });
        want.insert(want.end(), w2.begin(), w2.end());
    }
    else
    {
        const Stmt &a = c.prog[0], &b = c.prog[1];
        switch (a.sev)
        {
        case 0: run_overlap_expr<0>(c.expr, a, b); break;
        case 1: run_overlap_expr<1>(c.expr, a, b); break;
        case 2: run_overlap_expr<2>(c.expr, a, b); break;
        case 3: run_overlap_expr<3>(c.expr, a, b); break;
        case 4: run_overlap_expr<4>(c.expr, a, b); break;
        default: run_overlap_expr<5>(c.expr, a, b); break;
        }
        // reference: items interleaved by position, then record of b (destroyed first), then record of a
        if (enabled(c.expr, c.t, a.sev, a.tagged))
        {
            std::vector<Event> ea, eb;
            std::string ma, mb;
            ref_items(c.expr, c.t, a, ea, ma);
            ref_items(c.expr, c.t, b, eb, mb);
            // interleave the item events position by position
            auto pos_of = [](const Event& e) { return e.a % 10; };
            size_t ia = 0, ib = 0;
            size_t n = std::max(a.items.size(), b.items.size());
            for (size_t p = 0; p < n; p++)
            {
                // all events caused by item p of a (a call, possibly followed by an inner record), then those of b
                auto take = [&](std::vector<Event>& src, size_t& i, const Stmt& st) {
                    if (p >= st.items.size())
                        return;
                    int k = st.items[p];
                    size_t cnt = (k == I_CALLA || k == I_CALLB || k == I_MARK) ? 1 : (k == I_NEST ? 5 : 0);
                    for (size_t q = 0; q < cnt && i < src.size(); q++)
                        want.push_back(src[i++]);
                };
                take(ea, ia, a);
                take(eb, ib, b);
            }
            (void)pos_of;
            ref_emit(b, mb, want);
            ref_emit(a, ma, want);
        }
    }
    auto got = events();
    compare(want, got, c.cls(), out);
    return out;
}

} // namespace lm

// C20 - enumerate and reverse visit every element once, in the right order, in place.
// Engine B (degenerate engine A): container kinds {vector, deque, list, map, std::array<N>, built-in array,
// initializer list, fixed_vector (full and partially filled)} x value category {lvalue, const lvalue, temporary} x
// lengths 0..4 x iteration styles {range-for, ++it, it++, *it++}.  Elements are instrumented (live-set), so a dead
// temporary is visible; lvalue ranges must alias the original elements (address + write-through).
#include <memory>

#include <nitro/lang/enumerate.hpp>
#include <nitro/lang/fixed_vector.hpp>
#include <nitro/lang/reverse.hpp>

#include "../engine/json.hpp"
#include "../engine/mc.hpp"

#include <array>
#include <deque>
#include <functional>
#include <list>
#include <map>
#include <set>

struct E
{
    int v;
    static std::set<const E*>& live()
    {
        static std::set<const E*> s;
        return s;
    }
    static long& errors()
    {
        static long e = 0;
        return e;
    }
    E(int x = -1) : v(x)
    {
        live().insert(this);
    }
    E(const E& o) : v(o.v)
    {
        if (!live().count(&o))
            errors()++;
        live().insert(this);
    }
    E& operator=(const E& o)
    {
        if (!live().count(&o) || !live().count(this))
            errors()++;
        v = o.v;
        return *this;
    }
    ~E()
    {
        if (!live().erase(this))
            errors()++;
    }
    bool operator<(const E& o) const
    {
        return v < o.v;
    }
};

// uniform access to "the E behind a visited value"
static const E* addr(const E& e)
{
    return &e;
}
static const E* addr(const std::pair<const int, E>& p)
{
    return &p.second;
}
static const E* addr(const std::reference_wrapper<E>& r)
{
    return &r.get();
}
static const E* addr(const std::reference_wrapper<const E>& r)
{
    return &r.get();
}
static void put(E& e, int x)
{
    e.v = x;
}
static void put(std::pair<const int, E>& p, int x)
{
    p.second.v = x;
}
static void put(std::reference_wrapper<E> r, int x)
{
    r.get().v = x;
}

using Fails = std::vector<std::string>;

static std::string vs(const std::vector<int>& v)
{
    std::string s = "[";
    for (size_t i = 0; i < v.size(); i++)
        s += (i ? "," : "") + std::to_string(v[i]);
    return s + "]";
}

// ---- enumerate: iterate `range` in the given style, collect (index, value, address)
struct Seen
{
    std::vector<size_t> idx;
    std::vector<int> val;
    std::vector<const E*> at;
    long dead = 0;
};
template <typename P>
static void note(Seen& s, P&& p)
{
    s.idx.push_back(p.index());
    const E* a = addr(p.value());
    s.at.push_back(a);
    if (!E::live().count(a))
    {
        s.dead++;
        s.val.push_back(-777);
    }
    else
        s.val.push_back(a->v);
}
template <typename R>
static Seen walk_enum(R&& range, int style)
{
    Seen s;
    size_t guard = 0;
    if (style == 0)
    {
        for (auto p : range)
        {
            note(s, p);
            if (++guard > 5000)
                break;
        }
    }
    else if (style == 1)
    {
        for (auto it = range.begin(); it != range.end() && guard++ < 5000; ++it)
            note(s, *it);
    }
    else if (style == 2)
    {
        for (auto it = range.begin(); it != range.end() && guard++ < 5000; it++)
            note(s, *it);
    }
    else
    {
        auto it = range.begin();
        while (it != range.end() && guard++ < 5000)
            note(s, *it++);
    }
    return s;
}
static void judge_enum(const Seen& s, const std::vector<int>& want, const std::vector<const E*>* alias, const std::string& what, Fails& f)
{
    std::vector<size_t> want_idx;
    for (size_t i = 0; i < want.size(); i++)
        want_idx.push_back(i);
    if (s.dead)
        f.push_back("element-dead-during-loop: " + what + " visited " + std::to_string(s.dead) + " destroyed element(s)");
    if (s.val != want)
        f.push_back("enumerate-visits-wrong-elements: " + what + " visited " + vs(s.val) + " expected " + vs(want));
    if (s.idx != want_idx)
    {
        std::vector<int> gi(s.idx.begin(), s.idx.end());
        f.push_back("enumerate-wrong-indices: " + what + " paired the elements with indices " + vs(gi));
    }
    if (alias && s.at != *alias)
        f.push_back("enumerate-does-not-alias-the-container: " + what + " visited copies, not the elements themselves");
}

template <typename R>
static Seen walk_rev(R&& range, int style)
{
    Seen s;
    size_t guard = 0;
    if (style % 2 == 0)
    {
        for (auto& e : range)
        {
            const E* a = addr(e);
            s.at.push_back(a);
            if (!E::live().count(a))
            {
                s.dead++;
                s.val.push_back(-777);
            }
            else
                s.val.push_back(a->v);
            if (++guard > 5000)
                break;
        }
    }
    else
    {
        for (auto it = range.begin(); it != range.end() && guard++ < 5000; ++it)
        {
            const E* a = addr(*it);
            s.at.push_back(a);
            s.val.push_back(E::live().count(a) ? a->v : -777);
            s.dead += !E::live().count(a);
        }
    }
    return s;
}
static void judge_rev(const Seen& s, std::vector<int> want, std::vector<const E*>* alias, const std::string& what, Fails& f)
{
    std::reverse(want.begin(), want.end());
    if (s.dead)
        f.push_back("element-dead-during-loop: " + what + " visited " + std::to_string(s.dead) + " destroyed element(s)");
    if (s.val != want)
        f.push_back("reverse-visits-wrong-elements: " + what + " visited " + vs(s.val) + " expected " + vs(want));
    if (alias)
    {
        std::reverse(alias->begin(), alias->end());
        if (s.at != *alias)
            f.push_back("reverse-does-not-alias-the-container: " + what + " visited copies, not the elements themselves");
    }
}

// ---- generic per-container driver.  Make() builds a container of n elements with values 10..10+n-1
template <typename C>
static std::vector<const E*> addresses(C& c)
{
    std::vector<const E*> a;
    for (auto& e : c)
        a.push_back(addr(e));
    return a;
}
template <typename C>
static std::vector<int> values(C& c)
{
    std::vector<int> a;
    for (auto& e : c)
        a.push_back(addr(e)->v);
    return a;
}

// `writable`: elements can be modified through the adaptor (not for std::set); `reversible`: the kind has rbegin()
template <typename Make, bool writable = true>
static Fails run_container(const std::string& kind, Make make, int n, int cat, int adaptor, int style)
{
    Fails f;
    std::string what = (adaptor == 0 ? "enumerate(" : adaptor == 1 ? "reverse(" : "enumerate(reverse(") +
                       std::string(cat == 0 ? "lvalue " : cat == 1 ? "const " : cat == 2 ? "temporary " : cat == 3 ? "temporary, range object moved on, " : "temporary, range object copied, ") + kind + " of " +
                       std::to_string(n) + (adaptor == 2 ? "))" : ")") + " style " + std::to_string(style);
    {
        auto c = make(n);
        auto want = values(c);
        auto at = addresses(c);
        // the range object of a temporary is handed on (moved into a new object / copied) and the original object is
        // destroyed before the loop: the elements live in whatever object the loop iterates over
        auto handed_on = [&](auto* r) {
            using R = std::remove_pointer_t<decltype(r)>;
            R* r2 = cat == 3 ? new R(std::move(*r)) : new R(static_cast<const R&>(*r));
            delete r;
            return std::unique_ptr<R>(r2);
        };
        if (adaptor == 2)
        {
            // composition: the reversed range is itself a temporary range handed to enumerate
            auto rwant = want;
            std::reverse(rwant.begin(), rwant.end());
            auto rat = at;
            std::reverse(rat.begin(), rat.end());
            if (cat == 0)
                judge_enum(walk_enum(nitro::lang::enumerate(nitro::lang::reverse(c)), style), rwant, &rat, what, f);
            else if (cat == 1)
            {
                const auto& cc = c;
                judge_enum(walk_enum(nitro::lang::enumerate(nitro::lang::reverse(cc)), style), rwant, &rat, what, f);
            }
            else if (cat == 2)
                judge_enum(walk_enum(nitro::lang::enumerate(nitro::lang::reverse(std::move(c))), style), rwant, nullptr, what, f);
            else
            {
                auto r = handed_on(new auto(nitro::lang::enumerate(nitro::lang::reverse(std::move(c)))));
                judge_enum(walk_enum(*r, style), rwant, nullptr, what, f);
            }
        }
        else if (cat >= 3)
        {
            if (adaptor == 0)
            {
                auto r = handed_on(new auto(nitro::lang::enumerate(std::move(c))));
                judge_enum(walk_enum(*r, style), want, nullptr, what, f);
            }
            else
            {
                auto r = handed_on(new auto(nitro::lang::reverse(std::move(c))));
                judge_rev(walk_rev(*r, style), want, nullptr, what, f);
            }
        }
        else if (adaptor == 0)
        {
            if (cat == 0)
            {
                judge_enum(walk_enum(nitro::lang::enumerate(c), style), want, &at, what, f);
                if constexpr (writable)
                {
                    // write through the adaptor, read the container
                    for (auto p : nitro::lang::enumerate(c))
                        put(p.value(), 100 + static_cast<int>(p.index()));
                    auto after = values(c);
                    std::vector<int> exp;
                    for (size_t i = 0; i < want.size(); i++)
                        exp.push_back(100 + static_cast<int>(i));
                    if (after != exp)
                        f.push_back("enumerate-writes-not-visible-in-container: " + what + " container shows " + vs(after) + " expected " + vs(exp));
                    // the same through a loop variable bound as `const auto&` (the visited value still aliases the element)
                    for (const auto& p : nitro::lang::enumerate(c))
                        put(p.value(), 300 + static_cast<int>(p.index()));
                    after = values(c);
                    for (auto& x : exp)
                        x += 200;
                    if (after != exp)
                        f.push_back("enumerate-writes-not-visible-in-container: " + what + " (loop variable bound as const auto&) container shows " + vs(after) + " expected " + vs(exp));
                }
            }
            else if (cat == 1)
            {
                const auto& cc = c;
                judge_enum(walk_enum(nitro::lang::enumerate(cc), style), want, &at, what, f);
            }
            else
                judge_enum(walk_enum(nitro::lang::enumerate(std::move(c)), style), want, nullptr, what, f);
        }
        else
        {
            if (cat == 0)
            {
                judge_rev(walk_rev(nitro::lang::reverse(c), style), want, &at, what, f);
                if constexpr (writable)
                {
                    int i = 0;
                    for (auto& e : nitro::lang::reverse(c))
                        put(e, 200 + i++);
                    auto after = values(c);
                    std::vector<int> exp;
                    for (size_t k = 0; k < want.size(); k++)
                        exp.push_back(200 + static_cast<int>(want.size() - 1 - k));
                    if (after != exp)
                        f.push_back("reverse-writes-not-visible-in-container: " + what + " container shows " + vs(after) + " expected " + vs(exp));
                }
            }
            else if (cat == 1)
            {
                const auto& cc = c;
                judge_rev(walk_rev(nitro::lang::reverse(cc), style), want, &at, what, f);
            }
            else
                judge_rev(walk_rev(nitro::lang::reverse(std::move(c)), style), want, nullptr, what, f);
        }
    }
    if (!E::live().empty())
    {
        f.push_back("element-leaked: " + what + " left " + std::to_string(E::live().size()) + " element(s) alive");
        E::live().clear();
    }
    if (E::errors())
    {
        f.push_back("element-lifetime-error: " + what + " (" + std::to_string(E::errors()) + " use(s) of dead elements)");
        E::errors() = 0;
    }
    return f;
}

// containers
static std::vector<E> mk_vector(int n)
{
    std::vector<E> c;
    for (int i = 0; i < n; i++)
        c.emplace_back(10 + i);
    return c;
}
static std::deque<E> mk_deque(int n)
{
    std::deque<E> c;
    for (int i = 0; i < n; i++)
        c.emplace_back(10 + i);
    return c;
}
static std::list<E> mk_list(int n)
{
    std::list<E> c;
    for (int i = 0; i < n; i++)
        c.emplace_back(10 + i);
    return c;
}
static std::map<int, E> mk_map(int n)
{
    std::map<int, E> c;
    for (int i = n - 1; i >= 0; i--)
        c.emplace(i * 3, E(10 + i));
    return c;
}
static std::set<E> mk_set(int n)
{
    std::set<E> c;
    for (int i = n - 1; i >= 0; i--)
        c.emplace(10 + i);
    return c;
}
static nitro::lang::fixed_vector<E> mk_fv_full(int n)
{
    nitro::lang::fixed_vector<E> c(n);
    for (int i = 0; i < n; i++)
        c.emplace_back(10 + i);
    return c;
}
static nitro::lang::fixed_vector<E> mk_fv_spare(int n)
{
    nitro::lang::fixed_vector<E> c(n + 2);
    for (int i = 0; i < n; i++)
        c.emplace_back(10 + i);
    return c;
}
template <size_t N>
static std::array<E, N> mk_array(int)
{
    std::array<E, N> c;
    for (size_t i = 0; i < N; i++)
        c[i].v = 10 + static_cast<int>(i);
    return c;
}

// built-in arrays and initializer lists need their own drivers (no value-returning factory)
template <size_t N>
static Fails run_builtin(int cat, int adaptor, int style)
{
    Fails f;
    std::string what = (adaptor == 0 ? "enumerate(" : adaptor == 1 ? "reverse(" : "enumerate(reverse(") + std::string(cat == 0 ? "" : "const ") + "built-in array of " + std::to_string(N) + (adaptor == 2 ? "))" : ")") + " style " + std::to_string(style);
    {
        E arr[N];
        std::vector<int> want;
        std::vector<const E*> at;
        for (size_t i = 0; i < N; i++)
        {
            arr[i].v = 10 + static_cast<int>(i);
            want.push_back(arr[i].v);
            at.push_back(&arr[i]);
        }
        if (adaptor == 0)
        {
            if (cat == 0)
            {
                judge_enum(walk_enum(nitro::lang::enumerate(arr), style), want, &at, what, f);
                for (auto p : nitro::lang::enumerate(arr))
                    put(p.value(), 100 + static_cast<int>(p.index()));
                for (size_t i = 0; i < N; i++)
                    if (arr[i].v != 100 + static_cast<int>(i))
                        f.push_back("enumerate-writes-not-visible-in-container: " + what);
            }
            else
            {
                const E(&carr)[N] = arr;
                judge_enum(walk_enum(nitro::lang::enumerate(carr), style), want, &at, what, f);
            }
        }
        else if (adaptor == 2)
        {
            auto rwant = want;
            std::reverse(rwant.begin(), rwant.end());
            auto rat = at;
            std::reverse(rat.begin(), rat.end());
            if (cat == 0)
                judge_enum(walk_enum(nitro::lang::enumerate(nitro::lang::reverse(arr)), style), rwant, &rat, what, f);
            else
            {
                const E(&carr)[N] = arr;
                judge_enum(walk_enum(nitro::lang::enumerate(nitro::lang::reverse(carr)), style), rwant, &rat, what, f);
            }
        }
        else
        {
            if (cat == 0)
            {
                judge_rev(walk_rev(nitro::lang::reverse(arr), style), want, &at, what, f);
                int i = 0;
                for (auto& e : nitro::lang::reverse(arr))
                    put(e, 200 + i++);
                for (size_t k = 0; k < N; k++)
                    if (arr[k].v != 200 + static_cast<int>(N - 1 - k))
                        f.push_back("reverse-writes-not-visible-in-container: " + what);
            }
            else
            {
                const E(&carr)[N] = arr;
                judge_rev(walk_rev(nitro::lang::reverse(carr), style), want, &at, what, f);
            }
        }
    }
    if (!E::live().empty())
    {
        f.push_back("element-leaked: " + what);
        E::live().clear();
    }
    if (E::errors())
    {
        f.push_back("element-lifetime-error: " + what);
        E::errors() = 0;
    }
    return f;
}

static Fails run_initlist(int n, int adaptor, int style)
{
    Fails f;
    std::string what = (adaptor == 0 ? "enumerate(" : adaptor == 1 ? "reverse(" : "enumerate(reverse(") + std::string("initializer list of ") + std::to_string(n) + (adaptor == 2 ? "))" : ")") + " style " + std::to_string(style);
    {
        std::vector<int> want;
        for (int i = 0; i < n; i++)
            want.push_back(10 + i);
#define IL0 std::initializer_list<E>{}
#define IL1 { E(10) }
#define IL2 { E(10), E(11) }
#define IL3 { E(10), E(11), E(12) }
#define IL4 { E(10), E(11), E(12), E(13) }
        if (adaptor == 0)
        {
            Seen s;
            switch (n)
            {
            case 0:
                s = walk_enum(nitro::lang::enumerate(IL0), style);
                break;
            case 1:
                s = walk_enum(nitro::lang::enumerate(IL1), style);
                break;
            case 2:
                s = walk_enum(nitro::lang::enumerate(IL2), style);
                break;
            case 3:
                s = walk_enum(nitro::lang::enumerate(IL3), style);
                break;
            default:
                s = walk_enum(nitro::lang::enumerate(IL4), style);
            }
            judge_enum(s, want, nullptr, what, f);
        }
        else if (adaptor == 2)
        {
            Seen s;
            switch (n)
            {
            case 0:
                s = walk_enum(nitro::lang::enumerate(nitro::lang::reverse(IL0)), style);
                break;
            case 1:
                s = walk_enum(nitro::lang::enumerate(nitro::lang::reverse(IL1)), style);
                break;
            case 2:
                s = walk_enum(nitro::lang::enumerate(nitro::lang::reverse(IL2)), style);
                break;
            case 3:
                s = walk_enum(nitro::lang::enumerate(nitro::lang::reverse(IL3)), style);
                break;
            default:
                s = walk_enum(nitro::lang::enumerate(nitro::lang::reverse(IL4)), style);
            }
            std::reverse(want.begin(), want.end());
            judge_enum(s, want, nullptr, what, f);
        }
        else
        {
            Seen s;
            switch (n)
            {
            case 0:
                s = walk_rev(nitro::lang::reverse(IL0), style);
                break;
            case 1:
                s = walk_rev(nitro::lang::reverse(IL1), style);
                break;
            case 2:
                s = walk_rev(nitro::lang::reverse(IL2), style);
                break;
            case 3:
                s = walk_rev(nitro::lang::reverse(IL3), style);
                break;
            default:
                s = walk_rev(nitro::lang::reverse(IL4), style);
            }
            judge_rev(s, want, nullptr, what, f);
        }
    }
    if (!E::live().empty())
    {
        f.push_back("element-leaked: " + what);
        E::live().clear();
    }
    if (E::errors())
    {
        f.push_back("element-lifetime-error: " + what);
        E::errors() = 0;
    }
    return f;
}

// built-in arrays of character type (a string literal is one): every element is visited, the terminating zero included
static Fails run_char_arrays()
{
    Fails f;
    auto check = [&](const std::string& what, const std::vector<int>& got, std::vector<int> want, bool reversed) {
        if (reversed)
            std::reverse(want.begin(), want.end());
        if (got != want)
            f.push_back("reverse-visits-wrong-elements: " + what + " visited " + vs(got) + " expected " + vs(want));
    };
    {
        const char credits[6] = { 5, 4, 3, 2, 1, 0 };
        std::vector<int> got;
        for (auto& e : nitro::lang::reverse(credits))
            got.push_back(static_cast<const char&>(e));
        check("reverse(const char[6] ending in 0)", got, { 5, 4, 3, 2, 1, 0 }, true);
        got.clear();
        std::vector<size_t> idx;
        for (auto p : nitro::lang::enumerate(credits))
        {
            got.push_back(p.value());
            idx.push_back(p.index());
        }
        if (got != std::vector<int>{ 5, 4, 3, 2, 1, 0 } || idx != std::vector<size_t>{ 0, 1, 2, 3, 4, 5 })
            f.push_back("enumerate-visits-wrong-elements: enumerate(const char[6] ending in 0) visited " + vs(got));
    }
    {
        const char zero[1] = { 0 };
        std::vector<int> got;
        for (auto& e : nitro::lang::reverse(zero))
            got.push_back(static_cast<const char&>(e));
        check("reverse(const char[1] = {0})", got, { 0 }, true);
    }
    {
        std::vector<int> got;
        for (auto& e : nitro::lang::reverse("abc"))
            got.push_back(static_cast<const char&>(e));
        check("reverse(\"abc\") (an array of 4 characters)", got, { 'a', 'b', 'c', 0 }, true);
    }
    {
        char mid[4] = { 1, 0, 2, 0 };
        unsigned char u[3] = { 200, 0, 0 };
        std::vector<int> got;
        for (auto& e : nitro::lang::reverse(mid))
            got.push_back(static_cast<char&>(e));
        check("reverse(char[4] with zeros)", got, { 1, 0, 2, 0 }, true);
        got.clear();
        for (auto& e : nitro::lang::reverse(u))
            got.push_back(static_cast<unsigned char&>(e));
        check("reverse(unsigned char[3] ending in zeros)", got, { 200, 0, 0 }, true);
    }
    return f;
}

// a range far longer than 2^32 elements (a counting range; nothing is stored): the index keeps counting
struct Counting
{
    struct iterator
    {
        unsigned long long i;
        unsigned long long operator*() const
        {
            return i;
        }
        iterator& operator++()
        {
            ++i;
            return *this;
        }
        bool operator!=(const iterator& o) const
        {
            return i != o.i;
        }
    };
    unsigned long long n;
    iterator begin() const
    {
        return { 0 };
    }
    iterator end() const
    {
        return { n };
    }
};
static Fails run_huge_count()
{
    Fails f;
    Counting c{ (1ull << 32) + 5 };
    unsigned long long visited = 0, first_bad = ~0ull, bad_index = 0;
    for (auto p : nitro::lang::enumerate(c))
    {
        if (p.index() != p.value() && first_bad == ~0ull)
        {
            first_bad = p.value();
            bad_index = p.index();
        }
        visited++;
    }
    if (visited != c.n)
        f.push_back("enumerate-visits-wrong-elements: a range of 2^32+5 elements was visited " + std::to_string(visited) + " times");
    if (first_bad != ~0ull)
        f.push_back("enumerate-wrong-indices: the element at position " + std::to_string(first_bad) + " of a range of 2^32+5 elements was paired with index " + std::to_string(bad_index));
    return f;
}

struct Case
{
    std::string name;
    std::function<Fails()> run;
};

static std::vector<Case> cases()
{
    std::vector<Case> cs;
    auto add_kind = [&](const std::string& kind, auto make, int nmin, int nmax) {
        for (int n = nmin; n <= nmax; n++)
            for (int cat = 0; cat < 5; cat++)
                for (int adaptor = 0; adaptor < 3; adaptor++)
                    for (int style = 0; style < (adaptor != 1 ? 4 : 2); style++)
                        cs.push_back({ kind + "/" + std::to_string(n) + "/" + std::to_string(cat) + "/" + std::to_string(adaptor) + "/" + std::to_string(style),
                                       [=] { return run_container(kind, make, n, cat, adaptor, style); } });
    };
    // std::set: elements are const, so only order, indices, aliasing by address and lifetime are judged
    for (int n = 0; n <= 4; n++)
        for (int cat = 0; cat < 5; cat++)
            for (int adaptor = 0; adaptor < 3; adaptor++)
                for (int style = 0; style < (adaptor != 1 ? 4 : 2); style++)
                    cs.push_back({ "set/" + std::to_string(n) + "/" + std::to_string(cat) + "/" + std::to_string(adaptor) + "/" + std::to_string(style),
                                   [=] { return run_container<decltype(&mk_set), false>("set", mk_set, n, cat, adaptor, style); } });
    // sizes: beyond small buffers / narrow index types
    for (int n : { 17, 300, 4097 })
    {
        add_kind("vector", mk_vector, n, n);
        add_kind("deque", mk_deque, n, n);
        add_kind("list", mk_list, n, n);
        add_kind("map", mk_map, n, n);
        add_kind("fixed_vector(full)", mk_fv_full, n, n);
        add_kind("fixed_vector(spare capacity)", mk_fv_spare, n, n);
    }
    add_kind("array<300>", mk_array<300>, 300, 300);
    add_kind("vector", mk_vector, 0, 4);
    add_kind("deque", mk_deque, 0, 4);
    add_kind("list", mk_list, 0, 4);
    add_kind("map", mk_map, 0, 4);
    add_kind("fixed_vector(full)", mk_fv_full, 0, 4);
    add_kind("fixed_vector(spare capacity)", mk_fv_spare, 0, 4);
    add_kind("array<0>", mk_array<0>, 0, 0);
    add_kind("array<1>", mk_array<1>, 1, 1);
    add_kind("array<2>", mk_array<2>, 2, 2);
    add_kind("array<3>", mk_array<3>, 3, 3);
    add_kind("array<4>", mk_array<4>, 4, 4);
    for (int cat = 0; cat < 2; cat++)
        for (int adaptor = 0; adaptor < 3; adaptor++)
            for (int style = 0; style < (adaptor != 1 ? 4 : 2); style++)
            {
                std::string sfx = "/" + std::to_string(cat) + "/" + std::to_string(adaptor) + "/" + std::to_string(style);
                cs.push_back({ "builtin<1>" + sfx, [=] { return run_builtin<1>(cat, adaptor, style); } });
                cs.push_back({ "builtin<2>" + sfx, [=] { return run_builtin<2>(cat, adaptor, style); } });
                cs.push_back({ "builtin<3>" + sfx, [=] { return run_builtin<3>(cat, adaptor, style); } });
                cs.push_back({ "builtin<4>" + sfx, [=] { return run_builtin<4>(cat, adaptor, style); } });
            }
    cs.push_back({ "chararrays/0/0/0/0", [] { return run_char_arrays(); } });
#if !defined(__SANITIZE_ADDRESS__)
    cs.push_back({ "counting(2^32+5)/0/0/0/0", [] { return run_huge_count(); } });
#endif
    for (int n = 0; n <= 4; n++)
        for (int adaptor = 0; adaptor < 3; adaptor++)
            for (int style = 0; style < (adaptor != 1 ? 4 : 2); style++)
                cs.push_back({ "initlist/" + std::to_string(n) + "/" + std::to_string(adaptor) + "/" + std::to_string(style), [=] { return run_initlist(n, adaptor, style); } });
    return cs;
}

int main(int argc, char** argv)
{
    auto a = mc::parse_args(argc, argv);
    auto cs = cases();
    if (!a.replay.empty())
    {
        auto doc = js::load(a.replay);
        const js::Value& w = doc.has("witness") ? doc.at("witness") : doc;
        for (auto& c : cs)
            if (c.name == w.s("case"))
            {
                auto f = c.run();
                printf("replay C20 case %s\n", c.name.c_str());
                for (auto& x : f)
                    printf("  FAILED: %s\n", x.c_str());
                if (f.empty())
                    printf("  every element visited once, in order, in place\n");
                return f.empty() ? 0 : 1;
            }
        printf("unknown case\n");
        return 2;
    }
    mc::Sharded sh;
    sh.id = "C20";
    sh.nworkers = a.jobs;
    sh.tmpdir = a.tmpdir;
    sh.walk = [&](mc::Ctx& ctx) {
        for (auto& c : cs)
        {
            long idx = ctx.next;
            ctx.each([&] { return mc::Desc{ mc::J().s("case", c.name).str(), c.name.substr(0, c.name.find('/')) }; },
                     [&](mc::Report& rep) {
                         auto f = c.run();
                         rep.count("executions");
                         rep.states.insert(mc::hash(c.name.substr(0, c.name.rfind('/'))));
                         rep.transitions.insert(mc::hash(c.name));
                         rep.nontrivial.insert(mc::hash(c.name));
                         rep.outcomes.insert(mc::hash(c.name.substr(0, c.name.find('/')) + (f.empty() ? "ok" : f[0].substr(0, f[0].find(':')))));
                         for (auto& x : f)
                         {
                             auto clause = x.substr(0, x.find(':'));
                             rep.violation(clause, "C20:" + clause + ":" + c.name.substr(0, c.name.find('/')), mc::J().s("case", c.name).str(), x, idx);
                         }
                         if (idx % 97 == 0)
                             rep.sample(mc::J().s("case", c.name).s("meaning", "kind/length/category(0 lvalue,1 const,2 temporary,3 temporary whose range object is moved on,4 ... copied)/adaptor(0 enumerate,1 reverse,2 enumerate(reverse))/iteration style").str());
                     });
        }
    };
    auto rep = sh.run();
    rep.counters["cases_total"] = cs.size();
    rep.notes["rule"] = "container kind x length 0..4 x value category (lvalue, const, temporary, temporary with the range object moved on / copied and the original destroyed) x adaptor (enumerate, reverse, enumerate(reverse)) x iteration style (range-for, ++it, it++, *it++); every case "
                        "is distinct; states = (kind, length, category, adaptor), transitions = cases executed";
    mc::write_out(a, rep);
    return 0;
}

// C14 - parsing is repeatable: earlier parse calls never leak into later ones.
// Engine A with a differential oracle: on ONE parser object every sequence of (argument vector, environment) events
// up to depth h is executed; after each event the observable outcome must equal the outcome of a freshly built
// identical parser given only that event.  A second phase searches breadth first with de-duplication on the option
// objects' publicly observable internal state, to a fixpoint or depth bound.
#include "parser_check.hpp"

#include <deque>

using namespace pc;

struct Event
{
    std::vector<std::string> argv;
    Env env;
    int replace = -1; // >= 0: not a parse - a freshly built parser with declaration #replace is move-assigned into the object
    bool vec = false; // parse through parse(std::vector<user_input>) instead of parse(argc, argv)
    std::string str() const
    {
        if (replace >= 0)
            return "REPLACE-BY-DECLARATION-" + std::to_string(replace);
        return mc::jlist(argv) + " env=" + env_json(env) + (vec ? " via parse(vector)" : "");
    }
};

static std::vector<Decl> declarations()
{
    std::vector<Decl> ds;
    {
        Decl D;
        D.items = { Item::opt("opt", "o").with_env("VP_O"), Item::multi("multi", "m").with_def("dm").with_env("VP_M"), Item::tog("tog", "t", true),
                    Item::tog("ugg", "u") };
        D.accepted = 2;
        ds.push_back(D);
    }
    {
        Decl D;
        D.items = { Item::opt("opt", "o", false).with_def("dflt"), Item::multi("multi", "m", false).with_env("VP_M"),
                    Item::tog("tog", "t", false, 2).with_env("VP_T") };
        D.accepted = UNLIMITED;
        D.greedy = true;
        ds.push_back(D);
    }
    {
        Decl D;
        D.items = { Item::opt("opt", "", false), Item::tog("tog", "t") };
        D.accepted = 0;
        ds.push_back(D);
    }
    {
        Decl D;
        D.items = { Item::opt("opt", "o"), Item::tog("tog", "t", false, 1) };
        D.accepted = 1;
        D.greedy = true;
        ds.push_back(D);
    }
    {
        // a one-character long name that equals another option's short name: `--x` and `-x` are different options
        Decl D;
        D.items = { Item::opt("x", ""), Item::opt("xmax", "x"), Item::multi("multi", "m") };
        D.accepted = 1;
        ds.push_back(D);
    }
    return ds;
}

static std::vector<Event> events()
{
    std::vector<std::vector<std::string>> vs = {
        {},
        { "--opt", "a" },
        { "-o=b" },
        { "--multi=1", "-m", "2" },
        { "-tt" },
        { "--no-tog" },
        { "-tu", "x" },
        { "x", "y", "z" },
        { "--zz" },
        { "--opt" },
        { "--opt=a", "--opt=b" },
        { "--tog", "--no-tog" },
        { "--opt=c", "--multi=3", "--tog", "p" },
        { "--", "a", "b", "c" },   // fails (where positionals are limited) after the switch to positional-only mode
        { "p", "--zz" },           // fails after a positional has been collected (greedy: after the mode switch)
        { "--", "--opt=z" },
        { "-x", "100" },
        { "--x", "cycles" },
        std::vector<std::string>(1100, "--multi=v"), // more values than any small buffer or capacity threshold
    };
    std::vector<Env> es = { {}, { { "VP_O", "e" }, { "VP_M", "p;q" }, { "VP_T", "TRUE" } }, { { "VP_T", "maybe" }, { "VP_M", "r" } } };
    std::vector<Event> out;
    for (auto& e : es)
        for (auto& v : vs)
            out.push_back({ v, e });
    for (int d = 0; d < static_cast<int>(declarations().size()); d++)
    {
        Event r;
        r.replace = d;
        out.push_back(r);
    }
    // the same object parsed through the other public entry point
    for (size_t v : { 0u, 1u, 3u, 4u, 5u, 6u, 8u, 12u })
    {
        Event e{ vs[v], {} };
        e.vec = true;
        out.push_back(e);
    }
    return out;
}

static void set_env(const Env& env)
{
    for (auto v : { "VP_O", "VP_M", "VP_T" })
    {
        auto e = env.find(v);
        if (e == env.end())
            unsetenv(v);
        else
            ref::put_in_place(v, e->second);
    }
}

static std::string outcome(nitro::options::parser& p, const Decl& D, const Event& ev)
{
    set_env(ev.env);
    auto r = ev.vec ? run_on_vector(p, D, ev.argv) : run_on(p, D, ev.argv);
    return r.ok ? r.str() : "THROWS " + r.why;
}

// the option objects' state as far as the public API shows it (used as BFS key, never as a verdict)
static std::string public_state(nitro::options::parser& p, const Decl& D)
{
    std::string s;
    for (auto& it : D.items)
    {
        if (it.kind == 'o')
        {
            auto& o = p.option(it.name);
            try
            {
                s += "o='" + o.get() + "'";
            }
            catch (std::exception&)
            {
                s += "o=<none>";
            }
            s += o.has_non_default() ? "*" : "";
        }
        if (it.kind == 'm')
        {
            auto& o = p.multi_option(it.name);
            s += "m=" + mc::jlist(o.get_all()) + (o.has_non_default() ? "*" : "");
        }
        if (it.kind == 't')
        {
            auto& o = p.toggle(it.name);
            s += "t=" + std::to_string(o.given()) + (o.has_non_default() ? "*" : "");
        }
        s += ";";
    }
    return s;
}

static std::string history_json(const Decl& D, const std::vector<Event>& h)
{
    std::string evs = "[";
    for (size_t i = 0; i < h.size(); i++)
        evs += (i ? "," : "") + mc::J().l("argv", h[i].argv).raw("env", env_json(h[i].env)).n("replace", h[i].replace).b("vector_entry", h[i].vec).str();
    evs += "]";
    return mc::J().s("decl", D.str()).raw("declaration", decl_json(D)).raw("history", evs).str();
}

// run a history on one parser; returns index of the first event whose outcome differs from a fresh parser's (-1 none)
static int run_history(const Decl& D, const std::vector<Event>& h, std::string* detail, std::string* state_key = nullptr,
                       mc::Report* rep = nullptr)
{
    static const std::vector<Decl> all = declarations();
    nitro::options::parser p;
    build(p, D);
    Decl cur = D;
    for (size_t i = 0; i < h.size(); i++)
    {
        if (h[i].replace >= 0)
        {
            // the parser object gets a new declaration by move assignment from a freshly built parser
            cur = all[h[i].replace];
            nitro::options::parser np;
            build(np, cur);
            p = std::move(np);
            continue;
        }
        std::string before = rep ? public_state(p, cur) : "";
        auto got = outcome(p, cur, h[i]);
        nitro::options::parser fresh;
        build(fresh, cur);
        auto want = outcome(fresh, cur, h[i]);
        if (rep)
        {
            rep->count("executions", 2);
            rep->states.insert(mc::hash(cur.str() + before));
            rep->transitions.insert(mc::hash(cur.str() + before + "|" + h[i].str()));
            rep->outcomes.insert(mc::hash(got));
        }
        if (got != want)
        {
            if (detail)
                *detail = "event #" + std::to_string(i + 1) + " " + h[i].str() + " (declaration now {" + cur.str() + "}): reused parser gives " + got +
                          " ; fresh parser gives " + want;
            return static_cast<int>(i);
        }
    }
    if (state_key)
        *state_key = cur.str() + "|" + public_state(p, cur);
    return -1;
}

static std::string event_class(const Decl& D, const Event& e)
{
    if (e.replace >= 0)
        return "[REPLACE]";
    auto r = refparse(D, e.argv, e.env);
    return "[" + class_seq(D, e.argv) + (e.env.empty() ? "" : " |env") + (e.vec ? " |vector" : "") + (r.ok ? " ok" : " fails") + "]";
}

static void report(const Decl& D, std::vector<Event> h, mc::Report& rep, long idx)
{
    std::string detail;
    // minimise: drop events while some event still diverges
    bool changed = true;
    while (changed && rep.want_witness())
    {
        changed = false;
        for (size_t i = 0; i < h.size() && h.size() > 1; i++)
        {
            auto c = h;
            c.erase(c.begin() + i);
            if (run_history(D, c, nullptr) >= 0)
            {
                h = c;
                changed = true;
                break;
            }
        }
    }
    int at = run_history(D, h, &detail);
    if (at >= 0)
        h.resize(at + 1);
    std::string cls;
    for (auto& e : h)
        cls += event_class(D, e);
    rep.violation("later-parse-differs-from-fresh-parser", "C14:later-parse-differs-from-fresh-parser:" + cls,
                  history_json(D, h), detail, idx);
}

int main(int argc, char** argv)
{
    auto a = mc::parse_args(argc, argv);
    auto decls = declarations();
    auto evs = events();
    if (!a.replay.empty())
    {
        auto doc = js::load(a.replay);
        const js::Value& w = doc.has("witness") ? doc.at("witness") : doc;
        Decl D = decl_from(w.at("declaration"));
        std::vector<Event> h;
        for (auto& e : w.at("history").arr)
        {
            Event ev{ e.strings("argv"), env_from(e), static_cast<int>(e.n("replace", -1)) };
            ev.vec = e.has("vector_entry") && e.flag("vector_entry");
            h.push_back(ev);
        }
        std::string detail;
        int at = run_history(D, h, &detail);
        printf("replay C14: declaration %s, %zu events\n  %s\n", D.str().c_str(), h.size(),
               at < 0 ? "every event gives what a fresh parser gives" : detail.c_str());
        return at < 0 ? 0 : 1;
    }
    int h = a.thorough() ? 3 : 2;
    if (!a.asan())
        h += 1;
    int bfs_depth = a.asan() ? 0 : (a.thorough() ? 8 : 5);
    auto sh = sharded(a, "C14");
    sh.walk = [&](mc::Ctx& ctx) {
        // phase 1: every history up to depth h, no de-duplication
        // (at depth 4 the events are those without an environment: the full alphabet is complete up to depth 3)
        std::vector<size_t> all_ix, core_ix;
        for (size_t k = 0; k < evs.size(); k++)
        {
            all_ix.push_back(k);
            if (evs[k].env.empty() && evs[k].argv.size() < 100)
                core_ix.push_back(k);
        }
        for (auto& D : decls)
            for (int len = 1; len <= h && !ctx.stop(); len++)
            {
                const std::vector<size_t>& pool = len >= 4 ? core_ix : all_ix;
                std::vector<size_t> ix(len, 0);
                for (;;)
                {
                    long idx = ctx.next;
                    auto make = [&] {
                        std::vector<Event> hist;
                        for (auto k : ix)
                            hist.push_back(evs[pool[k]]);
                        return hist;
                    };
                    ctx.each(
                        [&] {
                            auto hist = make();
                            std::string cls;
                            for (auto& e : hist)
                                cls += event_class(D, e);
                            return mc::Desc{ history_json(D, hist), cls };
                        },
                        [&](mc::Report& rep) {
                            auto hist = make();
                            rep.count("histories");
                            if (len > 1)
                                rep.nontrivial.insert(mc::hash(D.str() + history_json(D, hist)));
                            if (run_history(D, hist, nullptr, nullptr, &rep) >= 0)
                                report(D, hist, rep, idx);
                            else if (len == h && idx % 4001 == 0)
                                rep.sample(history_json(D, hist));
                        });
                    int p = len - 1;
                    while (p >= 0 && ++ix[p] == pool.size())
                        ix[p--] = 0;
                    if (p < 0)
                        break;
                }
            }
        // phase 2: BFS with de-duplication on the publicly observable option state (one case per declaration)
        if (bfs_depth)
            for (auto& D : decls)
            {
                long idx = ctx.next;
                ctx.each([&] { return mc::Desc{ mc::J().s("decl", D.str()).s("phase", "bfs").str(), "BFS" }; },
                         [&](mc::Report& rep) {
                             std::set<std::string> seen;
                             std::deque<std::vector<Event>> frontier;
                             frontier.push_back({});
                             {
                                 nitro::options::parser p;
                                 build(p, D);
                                 seen.insert(D.str() + "|" + public_state(p, D));
                             }
                             long expanded = 0;
                             int maxdepth = 0;
                             bool fix = true;
                             while (!frontier.empty())
                             {
                                 auto hist = frontier.front();
                                 frontier.pop_front();
                                 if (static_cast<int>(hist.size()) >= bfs_depth)
                                 {
                                     fix = false;
                                     continue;
                                 }
                                 for (auto& e : evs)
                                 {
                                     auto nh = hist;
                                     nh.push_back(e);
                                     std::string key;
                                     expanded++;
                                     if (run_history(D, nh, nullptr, &key, &rep) >= 0)
                                     {
                                         report(D, nh, rep, idx);
                                         continue;
                                     }
                                     if (seen.insert(key).second)
                                     {
                                         frontier.push_back(nh);
                                         maxdepth = std::max<int>(maxdepth, nh.size());
                                     }
                                 }
                                 if (seen.size() > 3000)
                                 {
                                     fix = false;
                                     break;
                                 }
                             }
                             rep.count("bfs_states", seen.size());
                             rep.count("bfs_transitions", expanded);
                             rep.set_max("max_bfs_depth_reached", maxdepth);
                             rep.count(fix ? "bfs_fixpoints" : "bfs_depth_bounded");
                         });
            }
    };
    sh.case_timeout_s = 120;
    auto rep = sh.run();
    rep.counters["bound_history_depth"] = h;
    rep.counters["bound_bfs_depth"] = bfs_depth;
    rep.counters["events"] = evs.size();
    rep.counters["declarations"] = decls.size();
    rep.notes["rule"] = "5 declarations x every sequence of <= min(h,3) events over the full alphabet (19 argument vectors x 3 environments, 8 vectors "
                        "through parse(std::vector<user_input>), replacement by each declaration; succeeding and failing) and of 4 events over the "
                        "events without an environment, on one parser object, each outcome compared with a fresh parser; then BFS de-duplicated on the "
                        "public state of the option objects; non-trivial = distinct histories of length >= 2";
    mc::write_out(a, rep);
    return 0;
}

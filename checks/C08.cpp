// C08 - format substitutes placeholders positionally, verbatim, with exact arity.
// Engine B: every format string over {'{', '}', 'a'} up to a length bound x every argument count 0..k+1 x every
// argument tuple over {x, empty, {}, {, }, {}{}} x both ways of supplying arguments (operator%, args(...)) x three
// ways of reading the result; typed arguments and stream manipulators on a format subset; exception messages for every
// tuple of <= 3 typed arguments, and - because a message must not depend on what was raised before - every ordered
// pair (earlier exception with sticky manipulators or a nested raise, later exception).
#include "../engine/json.hpp"
#include "../engine/mc.hpp"

#include <locale>
#include <nitro/except/exception.hpp>
#include <nitro/except/raise.hpp>
#include <nitro/format/format.hpp>
#include <nitro/options/exception.hpp>

#include <iomanip>
#include <limits>
#include <sstream>

static const std::vector<std::string>& arg_alphabet()
{
    static const std::vector<std::string> a = { "x", "", "{}", "{", "}", "{}{}", "$&", "$$1" };
    return a;
}

// naive reference: one left-to-right scan for "{}", argument text spliced in, never rescanned
static size_t placeholders(const std::string& f)
{
    size_t k = 0;
    for (size_t i = 0; i + 1 < f.size();)
    {
        if (f[i] == '{' && f[i + 1] == '}')
        {
            k++;
            i += 2;
        }
        else
            i++;
    }
    return k;
}
static std::string ref_format(const std::string& f, const std::vector<std::string>& args)
{
    std::string out;
    size_t n = 0;
    for (size_t i = 0; i < f.size();)
    {
        if (i + 1 < f.size() && f[i] == '{' && f[i + 1] == '}')
        {
            out += args[n++];
            i += 2;
        }
        else
            out += f[i++];
    }
    return out;
}

struct Fail
{
    std::string clause, detail;
};

// supply the arguments in one of two ways, read the result in one of three ways
static std::string run_format(const std::string& f, const std::vector<std::string>& a, int supply, int read, bool& threw, std::string& what)
{
    threw = false;
    try
    {
        auto fm = nitro::format(f);
        if (supply == 0)
        {
            for (auto& x : a)
                fm % x;
        }
        else
        {
            switch (a.size())
            {
            case 0:
                fm.args();
                break;
            case 1:
                fm.args(a[0]);
                break;
            case 2:
                fm.args(a[0], a[1]);
                break;
            case 3:
                fm.args(a[0], a[1], a[2]);
                break;
            case 4:
                fm.args(a[0], a[1], a[2], a[3]);
                break;
            default:
                fm.args(a[0], a[1], a[2], a[3], a[4]);
                for (size_t i = 5; i < a.size(); i++)
                    fm % a[i];
            }
        }
        if (read == 0)
            return fm.str();
        if (read == 1)
        {
            std::string s = fm;
            return s;
        }
        std::ostringstream o;
        o << "<";
        try
        {
            o << fm;
        }
        catch (std::exception& e)
        {
            // "raises instead of yielding partial output": nothing of the text may have reached the stream
            threw = true;
            what = e.what();
            if (o.str() != "<")
                what = "PARTIAL-OUTPUT:" + o.str().substr(1);
            return "";
        }
        o << ">";
        auto s = o.str();
        return s.substr(1, s.size() - 2);
    }
    catch (std::exception& e)
    {
        threw = true;
        what = e.what();
        return "";
    }
}

static void check_format(const std::string& f, const std::vector<std::string>& a, std::vector<Fail>& out, long& execs)
{
    size_t k = placeholders(f);
    for (int supply = 0; supply < 2; supply++)
        for (int read = 0; read < 3; read++)
        {
            bool threw;
            std::string what;
            auto got = run_format(f, a, supply, read, threw, what);
            execs++;
            std::string ctx = "format(" + mc::jstr(f) + ") with " + mc::jlist(a) + (supply ? " via args(...)" : " via operator%") +
                              (read == 0 ? " read by str()" : read == 1 ? " read by conversion" : " read by operator<<");
            if (a.size() != k)
            {
                if (threw && what.rfind("PARTIAL-OUTPUT:", 0) == 0)
                    out.push_back({ "partial-output-before-the-arity-error", ctx + " raised, but " + mc::jstr(what.substr(15)) + " had already been written to the stream" });
                if (!threw)
                    out.push_back({ a.size() > k ? "too-many-arguments-must-raise" : "too-few-arguments-must-raise",
                                    ctx + " returned " + mc::jstr(got) + " (" + std::to_string(k) + " placeholders)" });
                continue;
            }
            if (threw)
            {
                out.push_back({ "exact-arity-must-not-raise", ctx + " threw: " + what });
                continue;
            }
            auto want = ref_format(f, a);
            if (got != want)
                out.push_back({ "text-differs-from-positional-substitution", ctx + " = " + mc::jstr(got) + " expected " + mc::jstr(want) });
        }
}

// ---- typed arguments
template <typename T>
static std::string text_of(const T& v)
{
    std::ostringstream o;
    o << v;
    return o.str();
}

// a type that is streamable AND implicitly convertible to std::string, the two giving different texts: the argument's
// text is its stream representation
struct Dual
{
    operator std::string() const
    {
        return "converted";
    }
};
static std::ostream& operator<<(std::ostream& o, const Dual&)
{
    return o << "streamed";
}
// a type whose stream operator formats with sticky flags (they must not reach the next argument of any formatter)
struct Sticky
{
    int v;
};
static std::ostream& operator<<(std::ostream& o, const Sticky& s)
{
    return o << std::hex << std::showbase << s.v;
}
// a type whose stream operator itself uses nitro::format
struct Point
{
    int x, y;
};
static std::ostream& operator<<(std::ostream& o, const Point& p)
{
    return o << (nitro::format("P({}, {})") % p.x % p.y).str();
}

struct Typed
{
    std::string name;
    std::function<void(nitro::detail::formatter<char>&)> feed;   // fm % value
    std::function<void(std::ostringstream&)> stream;             // reference: fresh stream << value
};
#define TYPED(expr)                                                                                                                        \
    Typed                                                                                                                                  \
    {                                                                                                                                      \
        #expr, [](nitro::detail::formatter<char>& fm) { fm % (expr); }, [](std::ostringstream& o) { o << (expr); }                        \
    }
static const std::vector<Typed>& typed_values()
{
    static const std::string sv = "str{}";
    static const std::vector<Typed> v = {
        TYPED(42),          TYPED(-7),          TYPED(2.5),      TYPED('c'),         TYPED(true),         TYPED("lit"),
        TYPED(sv),          TYPED(255u),        TYPED(1.0 / 3),  TYPED(std::hex),    TYPED(std::boolalpha), TYPED(std::setw(6)),
        TYPED(std::setprecision(2)), TYPED(std::showpos), TYPED(std::uppercase),
        TYPED(Dual()),      TYPED(Sticky{ 255 }), TYPED((Point{ 1, 2 })),
        // numeric extremes (full digit count with and without a sign)
        TYPED(std::numeric_limits<int>::min()), TYPED(std::numeric_limits<long long>::min()), TYPED(std::numeric_limits<unsigned long long>::max()),
        TYPED(static_cast<short>(-32768)), TYPED(std::numeric_limits<long long>::max()), TYPED(-1000000000),
    };
    return v;
}

static void check_typed(const std::string& f, const std::vector<int>& ix, std::vector<Fail>& out, long& execs)
{
    auto& tv = typed_values();
    std::vector<std::string> texts;
    std::string names;
    for (int i : ix)
    {
        std::ostringstream o;
        tv[i].stream(o); // every argument has a stream of its own: manipulators never leak into the next argument
        texts.push_back(o.str());
        names += tv[i].name + " ";
    }
    bool threw = false;
    std::string got, what;
    try
    {
        auto fm = nitro::format(f);
        for (int i : ix)
            tv[i].feed(fm);
        got = fm.str();
    }
    catch (std::exception& e)
    {
        threw = true;
        what = e.what();
    }
    execs++;
    std::string ctx = "format(" + mc::jstr(f) + ") % " + names;
    if (texts.size() != placeholders(f))
    {
        if (!threw)
            out.push_back({ "wrong-arity-must-raise", ctx + " returned " + mc::jstr(got) });
        return;
    }
    if (threw)
    {
        out.push_back({ "exact-arity-must-not-raise", ctx + " threw " + what });
        return;
    }
    auto want = ref_format(f, texts);
    if (got != want)
        out.push_back({ "typed-argument-text-differs-from-its-stream-representation", ctx + " = " + mc::jstr(got) + " expected " + mc::jstr(want) });
}

// ---- ambient state: the global locale.  "The stream representation of the argument" is what a fresh stream gives at the
// moment the argument is supplied; a caller may change std::locale::global between two uses of the library (thousands
// separators, decimal comma).  A history is a word over {c, d, s}: classic, dots (1.234.567 and 2,5), spaces (1 234 567);
// after every change the same typed tuple is formatted again and compared with fresh streams.
struct DotsPunct : std::numpunct<char>
{
    char do_thousands_sep() const override { return '.'; }
    char do_decimal_point() const override { return ','; }
    std::string do_grouping() const override { return "\3"; }
    std::string do_truename() const override { return "wahr"; }
    std::string do_falsename() const override { return "falsch"; }
};
struct SpacesPunct : std::numpunct<char>
{
    char do_thousands_sep() const override { return ' '; }
    std::string do_grouping() const override { return "\3"; }
};
static void set_global_locale(char which)
{
    if (which == 'd')
        std::locale::global(std::locale(std::locale::classic(), new DotsPunct));
    else if (which == 's')
        std::locale::global(std::locale(std::locale::classic(), new SpacesPunct));
    else
        std::locale::global(std::locale::classic());
}
static void check_typed_locale(const std::string& f, const std::vector<int>& ix, const std::string& word, std::vector<Fail>& out, long& execs)
{
    std::string sofar;
    for (char w : word)
    {
        set_global_locale(w);
        sofar += w;
        size_t before = out.size();
        check_typed(f, ix, out, execs);
        for (size_t i = before; i < out.size(); i++)
        {
            if (out[i].clause == "typed-argument-text-differs-from-its-stream-representation")
                out[i].clause = "argument-text-differs-from-its-stream-representation-after-a-change-of-the-global-locale";
            out[i].detail += "  [global locale history " + sofar + ": c = classic, d = grouping with '.' and decimal ',', s = grouping with ' ']";
        }
        if (out.size() != before)
            break;
    }
    set_global_locale('c');
}

// ---- histories on one formatter object: arguments supplied in both ways, interleaved with reads and copies.
// The text (or the raise) of every read is a function of the format and of the arguments supplied so far - not of
// earlier reads.  Events: p/q = `% "x"` / `% "{}"`, a = args("x"), b = args("y","{}"), z = args(), S = str(),
// C = conversion to std::string, O = streamed, Y = continue on a copy of the formatter, M = continue on a moved formatter
static const std::string& history_events()
{
    static const std::string e = "pqabzSCOYM";
    return e;
}
static void check_history(const std::string& f, const std::string& ev, std::vector<Fail>& out, long& execs)
{
    using FM = nitro::detail::formatter<char>;
    std::unique_ptr<FM> fm(new FM(f));
    std::vector<std::string> args;
    size_t k = placeholders(f);
    std::string done;
    for (char c : ev)
    {
        done += c;
        bool read = false, threw = false;
        std::string got, what;
        try
        {
            switch (c)
            {
            case 'p':
                (*fm) % "x";
                args.push_back("x");
                break;
            case 'q':
                (*fm) % std::string("{}");
                args.push_back("{}");
                break;
            case 'a':
                fm->args("x");
                args.push_back("x");
                break;
            case 'b':
                fm->args(std::string("y"), "{}");
                args.push_back("y");
                args.push_back("{}");
                break;
            case 'z':
                fm->args();
                break;
            case 'Y':
                fm.reset(new FM(*fm));
                break;
            case 'M':
                fm.reset(new FM(std::move(*fm)));
                break;
            case 'S':
                read = true;
                got = fm->str();
                break;
            case 'C':
            {
                read = true;
                std::string t = *fm;
                got = t;
                break;
            }
            default:
            {
                read = true;
                std::ostringstream o;
                o << *fm;
                got = o.str();
            }
            }
        }
        catch (std::exception& e)
        {
            threw = true;
            what = e.what();
        }
        execs++;
        std::string ctx = "format(" + mc::jstr(f) + ") after events " + done + " (arguments so far " + mc::jlist(args) + ")";
        if (!read)
        {
            if (threw)
            {
                out.push_back({ "supplying-an-argument-raised", ctx + " threw " + what });
                return;
            }
            continue;
        }
        if (args.size() != k)
        {
            if (!threw)
                out.push_back({ "wrong-arity-must-raise(history)", ctx + " returned " + mc::jstr(got) });
        }
        else if (threw)
            out.push_back({ "exact-arity-must-not-raise(history)", ctx + " threw " + what });
        else if (got != ref_format(f, args))
            out.push_back({ "text-depends-on-the-history", ctx + " = " + mc::jstr(got) + " expected " + mc::jstr(ref_format(f, args)) });
        if (!out.empty())
            return;
    }
}

// ---- exception messages
struct NestedRaiser
{
};
static std::ostream& operator<<(std::ostream& o, const NestedRaiser&)
{
    // an argument whose stream operator itself raises (and handles) a library exception
    try
    {
        nitro::raise("inner ", 1, " message");
    }
    catch (nitro::except::exception& e)
    {
        o << "[" << e.what() << "]";
    }
    return o;
}

struct Raiser
{
    std::string name;
    std::function<std::string()> what; // raise and return what()
    std::function<std::string()> want; // reference text
};
#define CAT1(a) [] { std::ostringstream o; o << a; return o.str(); }
#define CAT2(a, b) [] { std::ostringstream o; o << a << b; return o.str(); }
#define CAT3(a, b, c) [] { std::ostringstream o; o << a << b << c; return o.str(); }
#define CAT4(a, b, c, d) [] { std::ostringstream o; o << a << b << c << d; return o.str(); }
#define RAISE(kind, ...) [] { try { kind(__VA_ARGS__); } catch (std::exception& e) { return std::string(e.what()); } return std::string("<did not throw>"); }

static std::vector<Raiser> raisers()
{
    using nitro::options::parsing_error;
    std::vector<Raiser> r = {
        { "raise(\"text\")", RAISE(nitro::raise, "text"), CAT1("text") },
        { "raise(42)", RAISE(nitro::raise, 42), CAT1(42) },
        { "raise(255, \" entries, got \", 16)", RAISE(nitro::raise, 255, " entries, got ", 16), CAT3(255, " entries, got ", 16) },
        { "raise(0.123456, \" valid=\", true)", RAISE(nitro::raise, 0.123456, " valid=", true), CAT3(0.123456, " valid=", true) },
        { "raise('c', -7, 2.5)", RAISE(nitro::raise, 'c', -7, 2.5), CAT3('c', -7, 2.5) },
        { "raise(std::string)", RAISE(nitro::raise, std::string("s{}")), CAT1(std::string("s{}")) },
        { "raise<parsing_error>(\"bad \", 7, '!')", RAISE(nitro::raise<parsing_error>, "bad ", 7, '!'), CAT3("bad ", 7, '!') },
        { "exception(\"ctor \", 1.5)", [] { nitro::except::exception e("ctor ", 1.5); return std::string(e.what()); }, CAT2("ctor ", 1.5) },
        // polluters: sticky manipulators and nested raises (their own message is checked too)
        { "raise(\"0x\", std::hex, 255)", RAISE(nitro::raise, "0x", std::hex, 255), CAT3("0x", std::hex, 255) },
        { "raise(std::boolalpha, true)", RAISE(nitro::raise, std::boolalpha, true), CAT2(std::boolalpha, true) },
        { "raise(std::setprecision(2), 3.14159)", RAISE(nitro::raise, std::setprecision(2), 3.14159), CAT2(std::setprecision(2), 3.14159) },
        { "raise(std::setfill('*'), std::setw(8), 1, std::left)", RAISE(nitro::raise, std::setfill('*'), std::setw(8), 1, std::left), CAT4(std::setfill('*'), std::setw(8), 1, std::left) },
        { "raise(std::showpos, std::uppercase, std::fixed, 2.5)", RAISE(nitro::raise, std::showpos, std::uppercase, std::fixed, 2.5), CAT4(std::showpos, std::uppercase, std::fixed, 2.5) },
        { "raise(\"outer \", NestedRaiser(), \" tail\")", RAISE(nitro::raise, "outer ", NestedRaiser(), " tail"), CAT3("outer ", NestedRaiser(), " tail") },
    };
    return r;
}

static std::vector<std::string> all_formats(int maxlen)
{
    const char al[] = { '{', '}', 'a' };
    std::vector<std::string> out = { "" };
    size_t from = 0;
    for (int len = 1; len <= maxlen; len++)
    {
        size_t to = out.size();
        for (size_t i = from; i < to; i++)
            for (char c : al)
                out.push_back(out[i] + c);
        from = to;
    }
    return out;
}

template <typename F>
static void for_arg_tuples(size_t k, F&& f)
{
    auto& A = arg_alphabet();
    for (size_t n = 0; n <= k + 1; n++)
    {
        size_t vary = std::min<size_t>(n, 3);
        std::vector<size_t> ix(vary, 0);
        for (;;)
        {
            std::vector<std::string> a;
            for (size_t i = 0; i < n; i++)
                a.push_back(i < vary ? A[ix[i]] : A[(i * 2) % A.size()]);
            f(a);
            int p = static_cast<int>(vary) - 1;
            while (p >= 0 && ++ix[p] == A.size())
                ix[p--] = 0;
            if (p < 0)
                break;
        }
    }
}

int main(int argc, char** argv)
{
    auto a = mc::parse_args(argc, argv);
    auto rs = raisers();
    if (!a.replay.empty())
    {
        auto doc = js::load(a.replay);
        const js::Value& w = doc.has("witness") ? doc.at("witness") : doc;
        std::vector<Fail> f;
        long ex = 0;
        if (w.has("format") && w.has("typed"))
        {
            std::vector<int> ix;
            for (auto& v : w.at("typed").arr)
                ix.push_back(static_cast<int>(v.num));
            if (w.has("locale_history"))
                check_typed_locale(w.s("format"), ix, w.s("locale_history"), f, ex);
            else
                check_typed(w.s("format"), ix, f, ex);
        }
        else if (w.has("format") && w.has("events"))
            check_history(w.s("format"), w.s("events"), f, ex);
        else if (w.has("format"))
            check_format(w.s("format"), w.strings("args"), f, ex);
        else
        {
            int first = static_cast<int>(w.n("first", -1)), second = static_cast<int>(w.n("second"));
            int mid = static_cast<int>(w.n("mid", -1));
            if (first >= 0)
                rs[first].what();
            if (mid >= 0)
                rs[mid].what();
            auto got = rs[second].what(), want = rs[second].want();
            if (got != want)
                f.push_back({ "exception-message", rs[second].name + " gives " + mc::jstr(got) + " expected " + mc::jstr(want) });
        }
        printf("replay C08\n");
        for (auto& x : f)
            printf("  FAILED clause: %s\n    %s\n", x.clause.c_str(), x.detail.c_str());
        if (f.empty())
            printf("  conforms\n");
        return f.empty() ? 0 : 1;
    }
    int L = a.thorough() ? 8 : 6;
    if (a.asan())
        L -= 1;
    auto formats = all_formats(L);
    std::vector<std::string> typed_formats = { "{}", "a{}", "{}a", "{}{}", "{} {}", "{{}}", "}{}{", "{}{}{}", "a{}b{}c", "{", "", "{}}", "{{}", "a" };
    std::vector<std::string> history_formats = { "{}", "{}{}", "a", "{} {}", "{{}}", "{}{}{}" };
    const int HD = a.thorough() ? (a.asan() ? 5 : 6) : (a.asan() ? 4 : 5);
    mc::Sharded sh;
    sh.id = "C08";
    sh.nworkers = a.jobs;
    sh.tmpdir = a.tmpdir;
    sh.deadline_s = a.deadline_s;
    sh.case_timeout_s = 30;
    sh.walk = [&](mc::Ctx& ctx) {
        // (1) format strings x argument tuples
        for (auto& f : formats)
        {
            long idx = ctx.next;
            ctx.each([&] { return mc::Desc{ mc::J().s("format", f).str(), "format k=" + std::to_string(placeholders(f)) }; },
                     [&](mc::Report& rep) {
                         long ex = 0;
                         size_t k = placeholders(f);
                         for_arg_tuples(k, [&](const std::vector<std::string>& args) {
                             std::vector<Fail> fl;
                             check_format(f, args, fl, ex);
                             rep.transitions.insert(mc::hash(f + "\x1f" + mc::jlist(args)));
                             if (k > 0 && args.size() == k)
                                 rep.nontrivial.insert(mc::hash(f + "\x1f" + mc::jlist(args)));
                             rep.outcomes.insert(mc::hash(args.size() == k ? ref_format(f, args) : std::string("raises")));
                             for (auto& x : fl)
                                 rep.violation(x.clause, "C08:" + x.clause + ":k=" + std::to_string(k) + ",n=" + std::to_string(args.size()),
                                               mc::J().s("format", f).l("args", args).str(), x.detail, idx);
                         });
                         rep.states.insert(mc::hash(f));
                         rep.count("executions", ex);
                         if (idx % 211 == 0 && k > 0)
                             rep.sample(mc::J().s("format", f).n("placeholders", k).str());
                     });
        }
        // (2) typed arguments and manipulators: every tuple of <= 3 typed values on the format subset
        size_t nt = typed_values().size();
        for (auto& f : typed_formats)
            for (size_t n = 0; n <= 3; n++)
            {
                std::vector<int> ix(n, 0);
                for (;;)
                {
                    long idx = ctx.next;
                    ctx.each([&] { return mc::Desc{ mc::J().s("format", f).raw("typed", "[]").str(), "typed" }; },
                             [&](mc::Report& rep) {
                                 std::vector<Fail> fl;
                                 long ex = 0;
                                 check_typed(f, ix, fl, ex);
                                 rep.count("executions", ex);
                                 std::string t = "[";
                                 for (size_t i = 0; i < ix.size(); i++)
                                     t += (i ? "," : "") + std::to_string(ix[i]);
                                 t += "]";
                                 rep.transitions.insert(mc::hash(f + "\x1ftyped" + t));
                                 for (auto& x : fl)
                                     rep.violation(x.clause, "C08:" + x.clause + ":typed", mc::J().s("format", f).raw("typed", t).str(), x.detail, idx);
                             });
                    int p = static_cast<int>(n) - 1;
                    while (p >= 0 && ++ix[p] == static_cast<int>(nt))
                        ix[p--] = 0;
                    if (p < 0)
                        break;
                }
            }
        // (2b) ambient state: every history of <= 3 global-locale changes x every tuple of <= 2 typed values on three formats
        {
            std::vector<std::string> words;
            for (const char* a1 : { "c", "d", "s" })
            {
                words.push_back(a1);
                for (const char* a2 : { "c", "d", "s" })
                {
                    if (a1[0] != a2[0])
                        words.push_back(std::string(a1) + a2);
                    for (const char* a3 : { "c", "d", "s" })
                        if (a1[0] != a2[0] && a2[0] != a3[0])
                            words.push_back(std::string(a1) + a2 + a3);
                }
            }
            for (auto& f : { std::string("{}"), std::string("{} {}"), std::string("a{}b") })
                for (auto& word : words)
                    for (size_t n = placeholders(f); n <= placeholders(f); n++)
                    {
                        std::vector<int> ix(n, 0);
                        for (;;)
                        {
                            long idx = ctx.next;
                            std::string t = "[";
                            for (size_t i = 0; i < ix.size(); i++)
                                t += (i ? "," : "") + std::to_string(ix[i]);
                            t += "]";
                            ctx.each([&] { return mc::Desc{ mc::J().s("format", f).raw("typed", t).s("locale_history", word).str(), "typed under locale history" }; },
                                     [&](mc::Report& rep) {
                                         std::vector<Fail> fl;
                                         long ex = 0;
                                         check_typed_locale(f, ix, word, fl, ex);
                                         rep.count("executions", ex);
                                         rep.count("locale_history_cases");
                                         rep.transitions.insert(mc::hash(f + "\x1flocale" + word + t));
                                         for (auto& x : fl)
                                             rep.violation(x.clause, "C08:" + x.clause + ":locale", mc::J().s("format", f).raw("typed", t).s("locale_history", word).str(), x.detail, idx);
                                     });
                            int p = static_cast<int>(n) - 1;
                            while (p >= 0 && ++ix[p] == static_cast<int>(nt))
                                ix[p--] = 0;
                            if (p < 0)
                                break;
                        }
                    }
        }
        // (3) exception messages: each alone, then every ordered pair and triple (earlier ones must not influence the later one)
        for (int first = -1; first < static_cast<int>(rs.size()); first++)
            for (int mid = -1; mid < static_cast<int>(rs.size()); mid++)
            {
                if (first < 0 && mid >= 0)
                    continue;
                for (size_t second = 0; second < rs.size(); second++)
                {
                    long idx = ctx.next;
                    ctx.each([&] { return mc::Desc{ mc::J().n("first", first).n("mid", mid).n("second", second).str(), "exception" }; },
                             [&](mc::Report& rep) {
                                 if (first >= 0)
                                     rs[first].what();
                                 if (mid >= 0)
                                     rs[mid].what();
                                 auto got = rs[second].what(), want = rs[second].want();
                                 rep.count("executions");
                                 rep.transitions.insert(mc::hash("exc" + std::to_string(first) + "," + std::to_string(mid) + "," + std::to_string(second)));
                                 rep.nontrivial.insert(mc::hash("exc" + std::to_string(first) + "," + std::to_string(mid) + "," + std::to_string(second)));
                                 if (got != want)
                                     rep.violation(first < 0 ? "exception-message-is-not-the-concatenation" : "exception-message-depends-on-earlier-exceptions",
                                                   std::string("C08:") + (first < 0 ? "exception-message" : "exception-message-after-earlier-exception"),
                                                   mc::J().n("first", first).n("mid", mid).n("second", second).str(),
                                                   (first >= 0 ? "after " + rs[first].name + (mid >= 0 ? " and " + rs[mid].name : "") + ": " : "") + rs[second].name +
                                                       " has message " + mc::jstr(got) + " expected " + mc::jstr(want),
                                                   idx);
                             });
                }
            }
        // (4) histories on one formatter object: every event sequence of length D over 10 events (judged after every read, so
        // every shorter history is covered as a prefix), sharded by the first two events
        {
            const std::string& E = history_events();
            for (auto& f : history_formats)
                for (char e0 : E)
                    for (char e1 : E)
                    {
                        long idx = ctx.next;
                        ctx.each([&] { return mc::Desc{ mc::J().s("format", f).s("events", std::string() + e0 + e1).str(), "history" }; },
                                 [&](mc::Report& rep) {
                                     long ex = 0;
                                     std::string ev(HD, E[0]);
                                     ev[0] = e0;
                                     ev[1] = e1;
                                     std::vector<int> ix(HD, 0);
                                     for (;;)
                                     {
                                         for (int i = 2; i < HD; i++)
                                             ev[i] = E[ix[i]];
                                         std::vector<Fail> fl;
                                         check_history(f, ev, fl, ex);
                                         rep.transitions.insert(mc::hash("hist" + f + "\x1f" + ev));
                                         if (ev.find_first_of("SCO") != std::string::npos && ev.find_first_of("pqab") != std::string::npos)
                                             rep.nontrivial.insert(mc::hash("hist" + f + "\x1f" + ev));
                                         for (auto& x : fl)
                                             rep.violation(x.clause, "C08:" + x.clause, mc::J().s("format", f).s("events", ev).str(), x.detail, idx);
                                         int p = HD - 1;
                                         while (p >= 2 && ++ix[p] == static_cast<int>(E.size()))
                                             ix[p--] = 0;
                                         if (p < 2)
                                             break;
                                     }
                                     rep.count("executions", ex);
                                     rep.count("histories", 1);
                                 });
                    }
        }
    };
    auto rep = sh.run();
    // (5) sizes: many placeholders, long arguments (beyond the short-string optimisation and small buffers), long literal text
    for (size_t k : { 17u, 33u, 65u, 257u })
        for (const std::string& sep : std::vector<std::string>{ "", "-", std::string(300, 'x') })
            for (size_t len : { 1u, 16u, 300u })
                for (int delta : { -1, 0, 1 })
                {
                    std::string f;
                    for (size_t i = 0; i < k; i++)
                        f += (i ? sep : std::string()) + "{}";
                    std::vector<std::string> args;
                    for (size_t i = 0; i < k + delta; i++)
                        args.push_back(std::string(len, static_cast<char>('a' + i % 26)) + (i % 5 == 0 ? "{}" : ""));
                    std::vector<Fail> fl;
                    long ex = 0;
                    check_format(f, args, fl, ex);
                    rep.count("executions", ex);
                    rep.count("large_cases");
                    for (auto& x : fl)
                        rep.violation(x.clause, "C08:" + x.clause + ":large", mc::J().s("format", f).l("args", args).str(), x.detail.substr(0, 400), 0);
                }
    rep.counters["bound_history_len"] = HD;
    rep.counters["bound_format_len"] = L;
    rep.counters["formats"] = formats.size();
    rep.notes["rule"] = "every format over {'{','}','a'} of length <= bound x argument count 0..k+1 x tuples over 8 argument texts x 2 ways of "
                        "supplying x 3 ways of reading; typed values and manipulators (tuples of <= 3 over 24, incl. a type that is also convertible to std::string, one with sticky flags, one that formats with nitro::format itself) on 14 formats; exception "
                        "messages alone and after every ordered pair of earlier exceptions; every history of bound_history_len events "
                        "(supply by % / args(1) / args(2) / args(), read in 3 ways, copy, move) on one formatter for 6 formats, judged at every read; non-trivial = exact-arity tuples for formats with "
                        "placeholders, and exception sequences";
    mc::write_out(a, rep);
    return 0;
}

// C18 - owning wrappers destroy exactly once and copy deeply.
// Engine A (engine/seqmc.hpp), two models on the real classes:
//  quaint  : pool of 3 quaint_ptr slots + a std::vector<quaint_ptr> (every push reallocates early); create<A|B|C>,
//            move-construct, move-assign, reset, assign nullptr, destroy, swap, push/insert/erase/pop/clear on the
//            vector.  Reference = ownership table; every payload must be destroyed exactly once, by the destructor
//            of its creation type, exactly when the reference says its last owner went away.
//  optional: pool of 2 nitro::lang::optional<T>; construct from value / empty, copy-construct, copy-assign (lvalue,
//            temporary, empty, self), assign value, read.  Reference = std::optional<int>; copies must not alias.
// BFS to a fixpoint over canonical states; exact payload accounting replaces LeakSanitizer.
#include <memory>

#include <nitro/lang/optional.hpp>
#include <nitro/lang/quaint_ptr.hpp>

#include "../engine/seqmc.hpp"

#include <optional>
#include <set>

using seqmc::Finding;
using seqmc::Step;

// ---------------------------------------------------------------------------------------------
// payload accounting

struct Acct
{
    struct Info
    {
        char type;
        int id;
    };
    std::map<const void*, Info> live;
    std::vector<int> destroyed; // ids destroyed since last clear()
    std::vector<std::string> errors;
    void created(const void* p, char type, int id)
    {
        if (live.count(p))
            errors.push_back("payload constructed over a live payload");
        live[p] = { type, id };
    }
    void destroying(const void* p, char dtor_type)
    {
        auto it = live.find(p);
        if (it == live.end())
        {
            errors.push_back(std::string("destructor of type ") + dtor_type + " ran on an address that holds no live payload (destroyed twice?)");
            return;
        }
        if (it->second.type != dtor_type)
            errors.push_back(std::string("payload #") + std::to_string(it->second.id) + " created as type " + it->second.type +
                             " was destroyed by the destructor of type " + dtor_type);
        destroyed.push_back(it->second.id);
        live.erase(it);
    }
};
static Acct& acct()
{
    static Acct a;
    return a;
}

struct PA
{
    int id;
    explicit PA(int i) : id(i)
    {
        acct().created(this, 'A', i);
    }
    ~PA()
    {
        acct().destroying(this, 'A');
    }
};
struct PB
{
    char pad[40];
    int id;
    explicit PB(int i) : id(i)
    {
        acct().created(this, 'B', i);
    }
    ~PB()
    {
        acct().destroying(this, 'B');
    }
};
struct PC
{
    double d[3];
    int id;
    long tail = 7;
    explicit PC(int i) : id(i)
    {
        acct().created(this, 'C', i);
    }
    ~PC()
    {
        acct().destroying(this, 'C');
    }
};

// an over-aligned payload (a cache-line padded per-thread structure) with a member that owns memory
struct alignas(64) PD
{
    int id;
    std::string text;
    explicit PD(int i) : id(i), text(100, 'd')
    {
        acct().created(this, 'D', i);
    }
    ~PD()
    {
        acct().destroying(this, 'D');
    }
};
// a payload whose constructor throws for odd ids (nothing was created, so nothing may be destroyed)
struct PT
{
    int id;
    explicit PT(int i) : id(i)
    {
        if (i % 2)
            throw std::out_of_range("payload constructor refuses odd ids");
        acct().created(this, 'T', i);
    }
    ~PT()
    {
        acct().destroying(this, 'T');
    }
};

// ---------------------------------------------------------------------------------------------
// model 1: quaint_ptr

namespace quaint
{
using nitro::lang::quaint_ptr;
const int N = 3;
const size_t VMAX = 3;

struct World
{
    std::vector<std::unique_ptr<quaint_ptr>> slot;
    std::vector<quaint_ptr> vec;
    // reference: payload ids
    std::vector<int> rslot;
    std::vector<int> rvec;
    std::map<int, char> type_of;
    int next_id = 1;
    World()
    {
        for (int i = 0; i < N; i++)
        {
            slot.emplace_back(new quaint_ptr());
            rslot.push_back(-1);
        }
    }
    std::string key() const
    {
        std::string s;
        for (int i = 0; i < N; i++)
            s += rslot[i] < 0 ? '-' : type_of.at(rslot[i]);
        s += "|";
        for (auto p : rvec)
            s += p < 0 ? '-' : type_of.at(p);
        return s;
    }
};

static quaint_ptr make(char k, int id)
{
    if (k == 'A')
        return nitro::lang::make_quaint<PA>(id);
    if (k == 'B')
        return nitro::lang::make_quaint<PB>(id);
    return nitro::lang::make_quaint<PC>(id);
}

static int id_through(const quaint_ptr& q, char type)
{
    if (type == 'A')
        return q.as<PA>().id;
    if (type == 'B')
        return q.as<PB>().id;
    return q.as<PC>().id;
}

// applies op; `expect_destroyed` receives the ids the reference says must die during this op
static bool apply(World& w, const std::string& op, std::vector<int>& expect_destroyed)
{
    auto kill = [&](int id) {
        if (id >= 0)
            expect_destroyed.push_back(id);
    };
    std::string c = op.substr(0, 2);
    int i = op.size() > 2 && isdigit(static_cast<unsigned char>(op[2])) ? op[2] - '0' : -1;
    int j = op.size() > 3 && isdigit(static_cast<unsigned char>(op[3])) ? op[3] - '0' : -1;
    if (c == "cr")
    {
        char k = op[2];
        int s = op[3] - '0';
        int id = w.next_id++;
        w.type_of[id] = k;
        *w.slot[s] = make(k, id);
        kill(w.rslot[s]);
        w.rslot[s] = id;
    }
    else if (c == "mc")
    {
        // slot j is replaced by a quaint_ptr move-constructed from slot i
        std::unique_ptr<quaint_ptr> n(new quaint_ptr(std::move(*w.slot[i])));
        w.slot[j] = std::move(n);
        kill(w.rslot[j]);
        w.rslot[j] = w.rslot[i];
        w.rslot[i] = -1;
    }
    else if (c == "ma")
    {
        *w.slot[j] = std::move(*w.slot[i]);
        kill(w.rslot[j]);
        w.rslot[j] = w.rslot[i];
        w.rslot[i] = -1;
    }
    else if (c == "rs")
    {
        w.slot[i]->reset();
        kill(w.rslot[i]);
        w.rslot[i] = -1;
    }
    else if (c == "nl")
    {
        *w.slot[i] = nullptr;
        kill(w.rslot[i]);
        w.rslot[i] = -1;
    }
    else if (c == "ds")
    {
        w.slot[i].reset();
        w.slot[i].reset(new quaint_ptr());
        kill(w.rslot[i]);
        w.rslot[i] = -1;
    }
    else if (c == "sw")
    {
        std::swap(*w.slot[i], *w.slot[j]);
        std::swap(w.rslot[i], w.rslot[j]);
    }
    else if (c == "pu")
    {
        if (w.rvec.size() >= VMAX)
            return false;
        w.vec.push_back(std::move(*w.slot[i]));
        w.rvec.push_back(w.rslot[i]);
        w.rslot[i] = -1;
    }
    else if (c == "in")
    {
        if (w.rvec.size() >= VMAX)
            return false;
        w.vec.insert(w.vec.begin(), std::move(*w.slot[i]));
        w.rvec.insert(w.rvec.begin(), w.rslot[i]);
        w.rslot[i] = -1;
    }
    else if (c == "er")
    {
        if (w.rvec.empty())
            return false;
        w.vec.erase(w.vec.begin());
        kill(w.rvec.front());
        w.rvec.erase(w.rvec.begin());
    }
    else if (c == "po")
    {
        if (w.rvec.empty())
            return false;
        w.vec.pop_back();
        kill(w.rvec.back());
        w.rvec.pop_back();
    }
    else if (c == "cl")
    {
        for (auto p : w.rvec)
            kill(p);
        w.vec.clear();
        w.vec.shrink_to_fit();
        w.rvec.clear();
    }
    else if (c == "tk")
    {
        // take the last vector element back into slot i (move-assign from a vector element)
        if (w.rvec.empty())
            return false;
        *w.slot[i] = std::move(w.vec.back());
        kill(w.rslot[i]);
        w.rslot[i] = w.rvec.back();
        w.rvec.back() = -1;
    }
    else
    {
        fprintf(stderr, "unknown op %s\n", op.c_str());
        abort();
    }
    (void)j;
    return true;
}

static std::vector<std::string> ops(const std::string&)
{
    std::vector<std::string> o;
    for (char k : { 'A', 'B', 'C' })
        for (int s = 0; s < N; s++)
            o.push_back(std::string("cr") + k + std::to_string(s));
    for (int i = 0; i < N; i++)
        for (int j = 0; j < N; j++)
            if (i != j)
            {
                o.push_back("mc" + std::to_string(i) + std::to_string(j));
                o.push_back("ma" + std::to_string(i) + std::to_string(j));
                if (i < j)
                    o.push_back("sw" + std::to_string(i) + std::to_string(j));
            }
    for (int i = 0; i < N; i++)
        for (auto c : { "rs", "nl", "ds", "pu", "in", "tk" })
            o.push_back(c + std::to_string(i));
    o.push_back("er");
    o.push_back("po");
    o.push_back("cl");
    return o;
}

static void observe(World& w, std::vector<Finding>& f, const std::string& ctx)
{
    for (int i = 0; i < N; i++)
    {
        bool want = w.rslot[i] >= 0;
        if (static_cast<bool>(*w.slot[i]) != want)
            f.push_back({ want ? "owner-tests-empty" : "moved-from-or-reset-pointer-not-empty",
                          "slot " + std::to_string(i) + " tests " + (want ? "empty" : "non-empty") + " " + ctx });
        else if (want && id_through(*w.slot[i], w.type_of[w.rslot[i]]) != w.rslot[i])
            f.push_back({ "pointer-owns-another-object", "slot " + std::to_string(i) + " does not hold payload #" + std::to_string(w.rslot[i]) + " " + ctx });
    }
    if (w.vec.size() != w.rvec.size())
        f.push_back({ "harness", "vector size differs " + ctx });
    else
        for (size_t k = 0; k < w.vec.size(); k++)
        {
            bool want = w.rvec[k] >= 0;
            if (static_cast<bool>(w.vec[k]) != want)
                f.push_back({ want ? "owner-tests-empty" : "moved-from-or-reset-pointer-not-empty", "vector element " + std::to_string(k) + " " + ctx });
            else if (want && id_through(w.vec[k], w.type_of[w.rvec[k]]) != w.rvec[k])
                f.push_back({ "pointer-owns-another-object", "vector element " + std::to_string(k) + " " + ctx });
        }
}

static Step step(const std::vector<std::string>& hist, const std::string& op)
{
    Step st;
    auto& A = acct();
    A = Acct();
    {
        World w;
        std::vector<int> dummy;
        for (auto& h : hist)
            apply(w, h, dummy);
        st.prefix_key = w.key();
        A.destroyed.clear();
        A.errors.clear();
        std::vector<int> expect;
        std::string ctx = "after [" + seqmc::join_hist(hist) + "] then " + op;
        bool enabled = apply(w, op, expect);
        if (!enabled)
        {
            st.outcome = "not-enabled";
        }
        else
        {
            std::multiset<int> got(A.destroyed.begin(), A.destroyed.end()), want(expect.begin(), expect.end());
            if (got != want)
            {
                std::string g, wn;
                for (auto x : got)
                    g += "#" + std::to_string(x) + " ";
                for (auto x : want)
                    wn += "#" + std::to_string(x) + " ";
                std::set<int> gs(got.begin(), got.end());
                bool twice = gs.size() != got.size();
                bool missing = false, extra = false;
                for (auto x : want)
                    if (!got.count(x))
                        missing = true;
                for (auto x : got)
                    if (!want.count(x))
                        extra = true;
                st.findings.push_back({ twice ? "payload-destroyed-twice" : missing ? "payload-not-destroyed-when-its-owner-went-away" : extra ? "payload-destroyed-while-still-owned" : "destruction-mismatch",
                                        "destroyed during the operation: " + g + "; the reference expects: " + wn + " " + ctx });
            }
            for (auto& e : A.errors)
                st.findings.push_back({ e.find("destructor of type") != std::string::npos && e.find("created as") != std::string::npos ? "destroyed-by-destructor-of-another-type" : "payload-lifetime-error", e + " " + ctx });
            A.errors.clear();
            observe(w, st.findings, ctx);
            st.next_key = w.key();
            st.outcome = std::to_string(expect.size()) + "destroyed";
        }
        // teardown: everything that is still owned dies now, exactly once
        A.destroyed.clear();
        std::multiset<int> owned;
        for (auto p : w.rslot)
            if (p >= 0)
                owned.insert(p);
        for (auto p : w.rvec)
            if (p >= 0)
                owned.insert(p);
        w.vec.clear();
        w.slot.clear();
        std::multiset<int> got(A.destroyed.begin(), A.destroyed.end());
        if (enabled && st.findings.empty() && got != owned)
            st.findings.push_back({ "teardown-destruction-mismatch", "destroying all owners destroyed " + std::to_string(got.size()) + " payloads, " +
                                                                       std::to_string(owned.size()) + " were owned; after [" + seqmc::join_hist(hist) + "] then " + op });
    }
    if (!A.live.empty() && st.findings.empty())
        st.findings.push_back({ "payload-leaked", std::to_string(A.live.size()) + " payload(s) still alive after every owner was destroyed; after [" +
                                                      seqmc::join_hist(hist) + "] then " + op });
    for (auto& e : A.errors)
        st.findings.push_back({ "payload-lifetime-error", e + " (at teardown)" });
    A = Acct();
    return st;
}
} // namespace quaint

// ---------------------------------------------------------------------------------------------
// model 2: nitro::lang::optional

namespace opt
{
struct T
{
    int v;
    static std::set<const T*>& live()
    {
        static std::set<const T*> s;
        return s;
    }
    static std::vector<std::string>& errors()
    {
        static std::vector<std::string> e;
        return e;
    }
    T(int x) : v(x)
    {
        live().insert(this);
    }
    T(const T& o) : v(o.v)
    {
        if (!live().count(&o))
            errors().push_back("copy from a dead object");
        live().insert(this);
    }
    T(T&& o) : v(o.v)
    {
        if (!live().count(&o))
            errors().push_back("move from a dead object");
        live().insert(this);
    }
    T& operator=(const T& o)
    {
        if (!live().count(&o) || !live().count(this))
            errors().push_back("assignment involving a dead object");
        v = o.v;
        return *this;
    }
    ~T()
    {
        if (!live().erase(this))
            errors().push_back("object destroyed twice");
    }
};
const int N = 2;

// payload types: the tracked struct (lifetime bookkeeping), bool (a type that is itself constructible from an optional
// through the explicit operator bool) and std::string (the type the library instantiates)
template <typename P> struct Pay;
template <> struct Pay<T>
{
    static T make(int x) { return T(x); }
    static int val(const T& t) { return t.v; }
    static T other() { return T(9); }
    static const char* name() { return "optional"; }
};
template <> struct Pay<bool>
{
    static bool make(int x) { return x == 2; }
    static int val(const bool& t) { return t ? 2 : 1; }
    static bool other() { return true; } // overwriting with `true`: reference value 2
    static const char* name() { return "optional<bool>"; }
};
template <> struct Pay<std::string>
{
    static std::string make(int x) { return x == 2 ? std::string(40, 'b') : std::string("a"); }
    static int val(const std::string& t) { return t == std::string(40, 'b') ? 2 : t == "a" ? 1 : t == "other" ? 9 : -1; }
    static std::string other() { return "other"; }
    static const char* name() { return "optional<string>"; }
};

template <typename P>
struct Model
{
using O = nitro::lang::optional<P>;
using PT = Pay<P>;
static int other_val() { return PT::val(PT::other()); }

struct World
{
    std::vector<std::unique_ptr<O>> slot;
    std::vector<std::optional<int>> ref;
    World()
    {
        for (int i = 0; i < N; i++)
        {
            slot.emplace_back(new O());
            ref.emplace_back();
        }
    }
    std::string key() const
    {
        std::string s;
        for (auto& r : ref)
            s += r ? std::to_string(*r) : "-";
        return s;
    }
};

static void apply(World& w, const std::string& op, std::vector<Finding>* f, const std::string& ctx)
{
    std::string c = op.substr(0, 2);
    int a = op.size() > 2 ? op[2] - '0' : 0, b = op.size() > 3 ? op[3] - '0' : 0;
    if (c == "nv")
    { // slot a = new optional from rvalue T(b)
        w.slot[a].reset(new O(PT::make(b)));
        w.ref[a] = b;
    }
    else if (c == "nc")
    { // from const lvalue
        const P t(PT::make(b));
        w.slot[a].reset(new O(t));
        w.ref[a] = b;
    }
    else if (c == "ne")
    {
        w.slot[a].reset(new O());
        w.ref[a].reset();
    }
    else if (c == "cc")
    { // slot b = copy-construct from slot a
        std::unique_ptr<O> n(new O(static_cast<const O&>(*w.slot[a])));
        auto r = w.ref[a];
        w.slot[b] = std::move(n);
        w.ref[b] = r;
    }
    else if (c == "ca")
    { // *slot b = *slot a (lvalue, possibly self)
        *w.slot[b] = static_cast<const O&>(*w.slot[a]);
        w.ref[b] = w.ref[a];
    }
    else if (c == "cn")
    { // *slot b = *slot a, the source being a non-const lvalue (possibly self)
        O& src = *w.slot[a];
        *w.slot[b] = src;
        w.ref[b] = w.ref[a];
    }
    else if (c == "cm")
    { // *slot b = std::move(copy of slot a)
        O tmp(static_cast<const O&>(*w.slot[a]));
        *w.slot[b] = std::move(tmp);
        w.ref[b] = w.ref[a];
    }
    else if (c == "cx")
    { // slot b = copy-construct from the non-const lvalue slot a
        O& src = *w.slot[a];
        std::unique_ptr<O> n(new O(src));
        auto r = w.ref[a];
        w.slot[b] = std::move(n);
        w.ref[b] = r;
    }
    else if (c == "cv")
    { // *slot a = empty non-const lvalue
        O none;
        O& src = none;
        *w.slot[a] = src;
        w.ref[a].reset();
    }
    else if (c == "ct")
    { // *slot b = temporary copy of slot a
        *w.slot[b] = O(*w.slot[a]);
        w.ref[b] = w.ref[a];
    }
    else if (c == "ce")
    { // *slot a = empty temporary
        *w.slot[a] = O();
        w.ref[a].reset();
    }
    else if (c == "cl")
    { // *slot a = empty lvalue
        O none;
        *w.slot[a] = none;
        w.ref[a].reset();
    }
    else if (c == "av")
    {
        *w.slot[a] = PT::make(b);
        w.ref[a] = b;
    }
    else if (c == "al")
    {
        const P t(PT::make(b));
        *w.slot[a] = t;
        w.ref[a] = b;
    }
    else if (c == "rd")
    {
        bool threw = false;
        int got = -1;
        try
        {
            got = PT::val(**w.slot[a]);
        }
        catch (std::exception&)
        {
            threw = true;
        }
        if (f)
        {
            if (w.ref[a] && threw)
                f->push_back({ "reading-engaged-optional-throws", ctx });
            if (!w.ref[a] && !threw)
                f->push_back({ "reading-empty-optional-does-not-raise", "read gave " + std::to_string(got) + " " + ctx });
            if (w.ref[a] && !threw && got != *w.ref[a])
                f->push_back({ "optional-holds-wrong-value", "read " + std::to_string(got) + " expected " + std::to_string(*w.ref[a]) + " " + ctx });
        }
    }
    else
    {
        fprintf(stderr, "unknown op %s\n", op.c_str());
        abort();
    }
}

static std::vector<std::string> ops(const std::string&)
{
    std::vector<std::string> o;
    for (int a = 0; a < N; a++)
    {
        for (int x = 1; x <= 2; x++)
            for (auto c : { "nv", "nc", "av", "al" })
                o.push_back(c + std::to_string(a) + std::to_string(x));
        for (auto c : { "ne", "ce", "cl", "cv", "rd" })
            o.push_back(c + std::to_string(a));
        for (int b = 0; b < N; b++)
            for (auto c : { "cc", "ca", "ct", "cn", "cm", "cx" })
            {
                if ((std::string(c) == "cc" || std::string(c) == "cx") && a == b)
                    continue;
                o.push_back(c + std::to_string(a) + std::to_string(b));
            }
    }
    return o;
}

static void observe(World& w, std::vector<Finding>& f, const std::string& ctx)
{
    for (int i = 0; i < N; i++)
    {
        bool engaged = static_cast<bool>(*w.slot[i]);
        if (engaged != w.ref[i].has_value())
            f.push_back({ engaged ? "optional-not-emptied" : "optional-lost-its-value", "slot " + std::to_string(i) + " is " + (engaged ? "engaged" : "empty") + ", reference " +
                                                                                          (w.ref[i] ? std::to_string(*w.ref[i]) : "empty") + " " + ctx });
        else if (engaged && PT::val(**w.slot[i]) != *w.ref[i])
            f.push_back({ "optional-holds-wrong-value", "slot " + std::to_string(i) + " holds " + std::to_string(PT::val(**w.slot[i])) + " expected " + std::to_string(*w.ref[i]) + " " + ctx });
        // reading is probed after every transition (not only as an operation of its own): an optional that is empty by the
        // reference must raise whatever its history was - emptied ones included
        if (!w.ref[i].has_value())
        {
            bool threw = false;
            int got = -1;
            try
            {
                got = PT::val(**w.slot[i]);
            }
            catch (std::exception&)
            {
                threw = true;
            }
            if (!threw)
                f.push_back({ "reading-empty-optional-does-not-raise", "slot " + std::to_string(i) + " is empty but reading it gave " + std::to_string(got) + " " + ctx });
        }
    }
    // deep copies: two engaged optionals never share their payload
    for (int i = 0; i < N; i++)
        for (int j = i + 1; j < N; j++)
            if (*w.slot[i] && *w.slot[j] && &**w.slot[i] == &**w.slot[j])
                f.push_back({ "optionals-alias-one-object", "slots " + std::to_string(i) + " and " + std::to_string(j) + " " + ctx });
}

static Step step(const std::vector<std::string>& hist, const std::string& op)
{
    Step st;
    T::errors().clear();
    {
        World w;
        for (auto& h : hist)
            apply(w, h, nullptr, "");
        st.prefix_key = w.key();
        std::string ctx = "after [" + seqmc::join_hist(hist) + "] then " + op;
        apply(w, op, &st.findings, ctx);
        observe(w, st.findings, ctx);
        st.next_key = w.key();
        st.outcome = st.next_key;
        // independence: overwrite each engaged slot with a new value, the others must keep theirs
        if (st.findings.empty())
            for (int i = 0; i < N; i++)
                if (*w.slot[i])
                {
                    *w.slot[i] = PT::other();
                    w.ref[i] = other_val();
                    observe(w, st.findings, ctx + " then overwriting slot " + std::to_string(i));
                }
    }
    if (!T::live().empty())
    {
        st.findings.push_back({ "payload-leaked", std::to_string(T::live().size()) + " object(s) alive after all optionals were destroyed; [" + seqmc::join_hist(hist) + "] then " + op });
        T::live().clear();
    }
    for (auto& e : T::errors())
        st.findings.push_back({ "payload-lifetime-error", e + "; [" + seqmc::join_hist(hist) + "] then " + op });
    T::errors().clear();
    return st;
}
}; // struct Model
} // namespace opt

// sizes: a vector of many owning pointers of mixed payload types (reallocations, erase / insert in the middle shift many
// elements by move assignment), and many optionals copied in a chain.  One deterministic long history per size; the
// accounting (exactly once, right destructor) is the same as in the explored models.
static void wide_cases(mc::Report& rep)
{
    using nitro::lang::quaint_ptr;
    auto make = [](int i) -> quaint_ptr {
        switch (i % 3)
        {
        case 0: return nitro::lang::make_quaint<PA>(i);
        case 1: return nitro::lang::make_quaint<PB>(i);
        default: return i % 2 ? nitro::lang::make_quaint<PD>(i) : nitro::lang::make_quaint<PC>(i);
        }
    };
    // creation that fails: the constructor of the payload throws - nothing exists, nothing is destroyed, nothing leaks
    {
        acct().live.clear();
        acct().destroyed.clear();
        acct().errors.clear();
        int threw = 0;
        std::vector<quaint_ptr> keep;
        for (int i = 0; i < 6; i++)
        {
            try
            {
                keep.push_back(nitro::lang::make_quaint<PT>(i));
            }
            catch (std::out_of_range&)
            {
                threw++;
            }
        }
        std::string problem;
        if (threw != 3 || acct().live.size() != 3)
            problem = std::to_string(threw) + " constructions threw and " + std::to_string(acct().live.size()) + " payloads are alive (expected 3 and 3)";
        keep.clear();
        if (problem.empty() && !acct().live.empty())
            problem = "payloads leaked";
        for (auto& e : acct().errors)
            problem += (problem.empty() ? "" : "; ") + e;
        rep.count("executions");
        if (!problem.empty())
            rep.violation("payload-accounting(throwing-constructor)", "C18:payload-accounting:throwing-constructor", mc::J().s("model", "wide").n("n", 0).str(),
                          "make_quaint<T>(args) where T's constructor throws for every second call: " + problem.substr(0, 400), 0);
        acct().live.clear();
        acct().errors.clear();
    }
    for (int n : { 17, 64, 300, 1025 })
    {
        acct().live.clear();
        acct().destroyed.clear();
        acct().errors.clear();
        std::vector<int> ref;
        std::string problem;
        {
            std::vector<quaint_ptr> v;
            for (int i = 0; i < n; i++)
            {
                v.push_back(make(i));
                ref.push_back(i);
            }
            // erase every third element from the middle outwards, insert new ones at the front, move-assign over others
            for (int i = n - 2; i > 0; i -= 3)
            {
                v.erase(v.begin() + i);
                ref.erase(ref.begin() + i);
            }
            for (int i = 0; i < n / 4; i++)
            {
                v.insert(v.begin() + i, make(n + i));
                ref.insert(ref.begin() + i, n + i);
            }
            for (size_t i = 0; i + 1 < v.size(); i += 5)
            {
                v[i] = make(3 * n + static_cast<int>(i));
                ref[i] = 3 * n + static_cast<int>(i);
            }
            for (size_t i = 2; i < v.size(); i += 7)
            {
                v[i].reset();
                ref[i] = -1;
            }
            std::vector<quaint_ptr> w(std::move(v));
            size_t alive = 0;
            for (auto r : ref)
                alive += r >= 0;
            if (acct().live.size() != alive)
                problem = std::to_string(acct().live.size()) + " payloads alive, the reference has " + std::to_string(alive);
            for (size_t i = 0; i < w.size() && problem.empty(); i++)
            {
                if ((ref[i] < 0) != (w[i].get() == nullptr))
                    problem = "element " + std::to_string(i) + (ref[i] < 0 ? " should be empty" : " should own a payload");
                else if (ref[i] >= 0)
                {
                    auto it = acct().live.find(w[i].get());
                    if (it == acct().live.end() || it->second.id != ref[i])
                        problem = "element " + std::to_string(i) + " owns payload #" + (it == acct().live.end() ? std::string("?") : std::to_string(it->second.id)) + " expected #" + std::to_string(ref[i]);
                }
            }
        }
        rep.count("executions");
        rep.count("wide_cases");
        if (!acct().live.empty() && problem.empty())
            problem = std::to_string(acct().live.size()) + " payload(s) leaked after the vector was destroyed";
        for (auto& e : acct().errors)
            problem += (problem.empty() ? "" : "; ") + e;
        if (!problem.empty())
            rep.violation("payload-accounting(many-owners)", "C18:payload-accounting:wide", mc::J().s("model", "wide").n("n", n).str(),
                          "vector of " + std::to_string(n) + " quaint_ptr (push, erase, insert, move-assign, reset, move the vector): " + problem.substr(0, 400), 0);
        acct().live.clear();
        acct().errors.clear();
        // a chain of optionals copied from one another: all independent, all hold the value, emptying one empties only that one
        {
            std::vector<nitro::lang::optional<std::string>> os;
            os.emplace_back(std::string(40, 'v'));
            for (int i = 1; i < n; i++)
                os.push_back(os[i / 2]);
            os[n / 2] = nitro::lang::optional<std::string>();
            std::string bad;
            for (int i = 0; i < n && bad.empty(); i++)
            {
                if (i == n / 2)
                {
                    if (os[i])
                        bad = "the emptied optional is still engaged";
                    continue;
                }
                if (!os[i] || *os[i] != std::string(40, 'v'))
                    bad = "optional #" + std::to_string(i) + " lost its value";
                for (int j = 0; j < i && bad.empty(); j += 13)
                    if (j != n / 2 && &*os[i] == &*os[j])
                        bad = "optionals #" + std::to_string(i) + " and #" + std::to_string(j) + " share one object";
            }
            rep.count("executions");
            if (!bad.empty())
                rep.violation("optional-copies(many)", "C18:optional-copies:wide", mc::J().s("model", "wide").n("n", n).str(), std::to_string(n) + " optionals copied in a chain: " + bad, 0);
        }
    }
}

int main(int argc, char** argv)
{
    auto a = mc::parse_args(argc, argv);
    seqmc::Spec q;
    q.id = "C18";
    q.name = "quaint_ptr";
    q.initial_key = "---|";
    q.ops = quaint::ops;
    q.step = quaint::step;
    seqmc::Spec o;
    o.id = "C18";
    o.name = "optional";
    o.initial_key = "--";
    o.ops = opt::Model<opt::T>::ops;
    o.step = opt::Model<opt::T>::step;
    seqmc::Spec ob = o, os = o;
    ob.name = "optional<bool>";
    ob.ops = opt::Model<bool>::ops;
    ob.step = opt::Model<bool>::step;
    os.name = "optional<string>";
    os.ops = opt::Model<std::string>::ops;
    os.step = opt::Model<std::string>::step;
    if (!a.replay.empty())
    {
        auto doc = js::load(a.replay);
        const js::Value& w = doc.has("witness") ? doc.at("witness") : doc;
        if (w.s("model") == "wide")
        {
            mc::Report r;
            wide_cases(r);
            for (auto& v : r.violations)
                printf("  FAILED clause: %s\n    %s\n", v.second.clause.c_str(), v.second.detail.c_str());
            if (r.violations.empty())
                printf("replay C18 (many owners): conforms\n");
            return r.violations.empty() ? 0 : 1;
        }
        return seqmc::replay({ q, o, ob, os }, w);
    }
    auto r1 = seqmc::explore(q, a);
    auto r2 = seqmc::explore(o, a);
    auto r3 = seqmc::explore(ob, a);
    auto r4 = seqmc::explore(os, a);
    mc::Report total = r1.rep;
    total.merge(r2.rep);
    total.merge(r3.rep);
    total.merge(r4.rep);
    wide_cases(total);
    total.notes["rule"] = "BFS to a fixpoint: quaint_ptr pool of 3 slots + vector of up to 3 elements over payload types A/B/C "
                          "(canonical state = which type each slot / vector element owns), 40 operations from every state; optional "
                          "pool of 2 over values {1,2} for three payload types (tracked struct, bool, std::string) with copies/assignments from const, "
                          "non-const, temporary and moved sources; every (state, operation) pair is distinct and non-trivial";
    mc::write_out(a, total);
    return 0;
}

// C07 - fixed_vector behaves as a bounded sequence, including copy, move and assignment.
// Engine A (see fv.hpp / fv_explore.hpp): the same state graph as C06 over a larger value alphabet / capacity, reference =
// std::vector bounded by the capacity; after every step size, indexing, at, forward and reverse iteration (rbegin..rend,
// crbegin..crend, nitro::lang::reverse), data(), front/back are compared; copies must be equal and independent, moves
// transfer the whole sequence, assignment replaces the contents.
#include "fv_explore.hpp"
#include "fv_pod.hpp"

int main(int argc, char** argv)
{
    auto a = mc::parse_args(argc, argv);
    fv::Explorer<fv::Tracked> ex;
    ex.args = a;
    ex.cfg.owner = "C07";
    ex.cfg.type_name = "Tracked";
    if (!a.replay.empty())
    {
        auto doc = js::load(a.replay);
        const js::Value& w = doc.has("witness") ? doc.at("witness") : doc;
        if (w.has("pod") || w.has("ramp_length"))
        {
            mc::Report r;
            fvpod::all("C07", r, false);
            for (auto& v : r.violations)
                printf("  FAILED clause: %s\n    %s\n", v.second.clause.c_str(), v.second.detail.c_str());
            if (r.violations.empty())
                printf("replay C07 (trivially copyable elements): conforms\n");
            return r.violations.empty() ? 0 : 1;
        }
        ex.cfg.nvalues = static_cast<int>(w.n("nvalues", 2));
        return ex.replay(w);
    }
    ex.cfg.max_cap = a.thorough() ? 6 : 4;
    ex.cfg.nvalues = 3;
    if (a.asan())
    {
        ex.cfg.max_cap -= 1;
        ex.cfg.nvalues = a.thorough() ? 3 : 2;
    }
    ex.cfg.faults = false;
    double t0 = mc::now_s();
    ex.run();
    ex.long_traces(ex.total);
    fvpod::all("C07", ex.total, a.asan());
    auto& total = ex.total;
    total.counters["bound_max_capacity"] = ex.cfg.max_cap;
    total.counters["bound_values"] = ex.cfg.nvalues;
    total.counters["wall_ms"] = static_cast<long long>((mc::now_s() - t0) * 1000);
    if (!ex.exhaustive)
        total.count("capped");
    total.notes["rule"] = "BFS to a fixpoint over concrete states of fixed_vector<Tracked> (capacities 0..bound, value alphabet as "
                          "reported), every operation with every argument from every state against a bounded std::vector; copy/move "
                          "assignment over all pairs of abstract-state representatives; every transition is a distinct (state, operation)";
    total.nontrivial = total.transitions;
    mc::write_out(a, total);
    return 0;
}

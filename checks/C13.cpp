// C13 - declarations stay unambiguous: one meaning per long name and per letter.
// Engine A over declaration histories: events = declare option/multi_option/toggle named a|b on the parser or on
// group g1|g2, short_name(x|y|""|"xy") on an existing item, MOVE (move-construct the heap-allocated parser into a new
// one and destroy the old).  Phase 1: every history up to depth d on fresh objects, every step against the
// reference (name -> kind, group, short); phase 2: BFS to a fixpoint, de-duplicated on the reference state (+ moved
// flag).  At every state a probe set of parses checks that each spelled name / letter resolves to exactly its item.
#include "parser_check.hpp"

#include <deque>
#include <memory>

using namespace pc;
namespace no = nitro::options;

struct Ev
{
    char type;        // 'D' declare, 'S' short_name, 'M' move (old parser destroyed), 'K' move (old parser kept alive), 'P' parse
    char kind = 'o';  // D
    std::string name; // D, S
    std::string group; // D: "", g1, g2
    std::string sh;    // S
    std::string str() const
    {
        if (type == 'M')
            return "MOVE";
        if (type == 'K')
            return "MOVE-KEEP-OLD";
        if (type == 'P')
            return "PARSE";
        if (type == 'D')
            return std::string(kind == 'o' ? "option" : kind == 'm' ? "multi_option" : "toggle") + "(" + name + ")@" +
                   (group.empty() ? "parser" : group);
        return "short_name(" + name + ",'" + sh + "')";
    }
    std::string cls() const
    {
        if (type == 'M')
            return "MOVE";
        if (type == 'K')
            return "MOVEK";
        if (type == 'P')
            return "PARSE";
        if (type == 'D')
            return std::string("D") + kind + (group.empty() ? "" : "@g");
        return "S" + std::to_string(sh.size());
    }
};

static std::vector<Ev> alphabet()
{
    std::vector<Ev> a;
    for (auto n : { "a", "b" })
        for (char k : { 'o', 'm', 't' })
            for (auto g : { "", "g1", "arguments" }) // "arguments" is also the heading of the default group
                a.push_back({ 'D', k, n, g, "" });
    for (auto n : { "a", "b" })
        for (auto s : { "x", "y", "", "xy" })
            a.push_back({ 'S', 'o', n, "", s });
    // a third name, "ab": it extends the name "a" (prefix relation between declared names) and makes three lettered items
    // possible (two sharing a letter with a differently lettered one in between); kept small: option on the parser only
    a.push_back({ 'D', 'o', "ab", "", "" });
    a.push_back({ 'S', 'o', "ab", "", "x" });
    a.push_back({ 'S', 'o', "ab", "", "y" });
    a.push_back({ 'M' });
    a.push_back({ 'K' });
    a.push_back({ 'P' });
    return a;
}

struct RefItem
{
    char kind;
    std::string group, sh;
    const void* addr;
};
struct RefState
{
    std::map<std::string, RefItem> items;
    bool moved = false;
    bool parsed = false;
    std::string key() const
    {
        std::string s = std::string(moved ? "M" : "-") + (parsed ? "P" : "-");
        for (auto& i : items)
            s += "|" + i.first + ":" + i.second.kind + "@" + i.second.group + "/" + i.second.sh;
        return s;
    }
    Decl decl() const
    {
        Decl D;
        for (auto& i : items)
        {
            Item it;
            it.kind = i.second.kind;
            it.name = i.first;
            it.sh = i.second.sh;
            it.optional = true;
            it.group = i.second.group;
            D.items.push_back(it);
        }
        return D;
    }
    bool letter_conflict() const
    {
        std::set<std::string> seen;
        for (auto& i : items)
            if (!i.second.sh.empty() && !seen.insert(i.second.sh).second)
                return true;
        return false;
    }
};

struct Live
{
    std::unique_ptr<no::parser> p{ new no::parser("prog") };
    std::map<std::string, no::option*> o;
    std::map<std::string, no::multi_option*> m;
    std::map<std::string, no::toggle*> t;
    std::vector<std::unique_ptr<no::parser>> kept; // moved-from parsers that stay alive
    std::map<std::string, no::group*> groups;       // group references obtained once and kept by the caller

    // named groups: through the kept reference once it exists; default group: name "a" through the parser's own
    // option()/multi_option()/toggle(), name "b" through a kept reference to the default group
    no::group& group_for(const std::string& g, const std::string& item_name)
    {
        std::string key = g.empty() ? "<default>" : g;
        auto it = groups.find(key);
        if (it != groups.end())
            return *it->second;
        no::group& ref = g.empty() ? p->group() : p->group(g);
        groups[key] = &ref;
        (void)item_name;
        return ref;
    }
};

struct StepResult
{
    bool diverged = false;
    std::string detail, clause;
};

// apply one event to the live parser and to the reference; compare
static StepResult apply(Live& L, RefState& R, const Ev& e)
{
    StepResult r;
    if (e.type == 'M' || e.type == 'K')
    {
        std::unique_ptr<no::parser> np(new no::parser(std::move(*L.p)));
        if (e.type == 'K')
            L.kept.push_back(std::move(L.p)); // the moved-from parser stays alive
        L.p = std::move(np);                  // (otherwise it is destroyed here)
        R.moved = true;
        return r;
    }
    if (e.type == 'P')
    {
        // a parse in the middle of the declarations; all items are optional, so it succeeds unless a letter is shared
        Decl D = R.decl();
        auto got = run_on(*L.p, D, {});
        bool conflict = R.letter_conflict();
        {
            // both public entry points refuse alike
            auto gv = run_on_vector(*L.p, D, {});
            if (conflict && (gv.ok || gv.why.rfind("parser_error", 0) != 0))
                got = gv;
            else if (!conflict && !gv.ok)
                got = gv;
        }
        if (!conflict)
            R.parsed = true; // a successful parse: anything the parser may cache about its declarations exists from now on
        if (conflict && (got.ok || got.why.rfind("parser_error", 0) != 0))
        {
            r.diverged = true;
            r.clause = "parser-with-shared-letter-parses";
            r.detail = "PARSE: two items share a letter in state " + R.key() + " but parse() gave " + (got.ok ? got.str() : got.why);
        }
        else if (!conflict && !got.ok)
        {
            r.diverged = true;
            r.clause = "unambiguous-parser-refuses-to-parse";
            r.detail = "PARSE in state " + R.key() + " threw " + got.why;
        }
        return r;
    }
    if (e.type == 'D')
    {
        auto it = R.items.find(e.name);
        bool expect_ok = it == R.items.end() || (it->second.kind == e.kind && it->second.group == e.group);
        const void* addr = nullptr;
        std::string threw;
        try
        {
            if (e.kind == 'o')
            {
                auto& x = (e.group.empty() && e.name != "b") ? L.p->option(e.name) : L.group_for(e.group, e.name).option(e.name);
                x.optional();
                addr = &x;
                L.o[e.name] = &x;
            }
            else if (e.kind == 'm')
            {
                auto& x = (e.group.empty() && e.name == "a") ? L.p->multi_option(e.name) : L.group_for(e.group, e.name).multi_option(e.name);
                x.optional();
                addr = &x;
                L.m[e.name] = &x;
            }
            else
            {
                auto& x = (e.group.empty() && e.name == "a") ? L.p->toggle(e.name) : L.group_for(e.group, e.name).toggle(e.name);
                addr = &x;
                L.t[e.name] = &x;
            }
        }
        catch (no::parser_error&)
        {
            threw = "parser_error";
        }
        catch (std::exception& ex)
        {
            threw = std::string("another exception: ") + ex.what();
        }
        if (expect_ok)
        {
            if (!threw.empty())
            {
                r.diverged = true;
                r.clause = it == R.items.end() ? "new-name-rejected" : "same-redeclaration-rejected";
                r.detail = e.str() + " threw " + threw + " in state " + R.key();
            }
            else if (it == R.items.end())
                R.items[e.name] = { e.kind, e.group, "", addr };
            else if (it->second.addr != addr)
            {
                r.diverged = true;
                r.clause = "redeclaration-returns-another-object";
                r.detail = e.str() + " returned a different object than the first declaration, state " + R.key();
            }
        }
        else
        {
            if (threw != "parser_error")
            {
                r.diverged = true;
                r.clause = threw.empty() ? "conflicting-redeclaration-accepted" : "wrong-exception-type";
                r.detail = e.str() + (threw.empty() ? " succeeded" : " threw " + threw) + " but name '" + e.name +
                           "' is already declared as " + it->second.kind + "@" + (it->second.group.empty() ? "parser" : it->second.group) +
                           "; state " + R.key();
            }
        }
        return r;
    }
    // short_name
    auto it = R.items.find(e.name);
    if (it == R.items.end())
        return r; // not enabled
    bool expect_ok = e.sh.size() == 1 && (it->second.sh.empty() || it->second.sh == e.sh);
    std::string threw;
    try
    {
        if (it->second.kind == 'o')
            L.o.at(e.name)->short_name(e.sh);
        else if (it->second.kind == 'm')
            L.m.at(e.name)->short_name(e.sh);
        else
            L.t.at(e.name)->short_name(e.sh);
    }
    catch (no::parser_error&)
    {
        threw = "parser_error";
    }
    catch (std::exception& ex)
    {
        threw = std::string("another exception: ") + ex.what();
    }
    if (expect_ok && !threw.empty())
    {
        r.diverged = true;
        r.clause = "valid-short-name-rejected";
        r.detail = e.str() + " threw " + threw + "; state " + R.key();
    }
    else if (!expect_ok && threw != "parser_error")
    {
        r.diverged = true;
        r.clause = threw.empty() ? "invalid-or-changed-short-name-accepted" : "wrong-exception-type";
        r.detail = e.str() + (threw.empty() ? " succeeded" : " threw " + threw) + "; state " + R.key();
    }
    else if (expect_ok)
        it->second.sh = e.sh;
    return r;
}

// replay a history; returns the index of the first diverging step or -1
static int replay(const std::vector<Ev>& h, Live& L, RefState& R, StepResult* out = nullptr)
{
    for (size_t i = 0; i < h.size(); i++)
    {
        auto r = apply(L, R, h[i]);
        if (r.diverged)
        {
            if (out)
                *out = r;
            return static_cast<int>(i);
        }
    }
    return -1;
}

// probes at a state: each on a freshly replayed parser
static std::vector<StepResult> probes(const std::vector<Ev>& h, mc::Report* rep)
{
    std::vector<StepResult> out;
    RefState R0;
    {
        Live L;
        if (replay(h, L, R0) >= 0)
            return out;
    }
    Decl D = R0.decl();
    D.accepted = 0;
    std::vector<std::vector<std::string>> argvs = { {} };
    for (auto& i : R0.items)
    {
        bool val = i.second.kind != 't';
        argvs.push_back(val ? std::vector<std::string>{ "--" + i.first, "v" } : std::vector<std::string>{ "--" + i.first });
        if (!i.second.sh.empty())
            argvs.push_back(val ? std::vector<std::string>{ "-" + i.second.sh, "w" } : std::vector<std::string>{ "-" + i.second.sh });
    }
    for (auto& av : argvs)
    {
        Live L;
        RefState R;
        replay(h, L, R);
        for (int entry = 0; entry < 2; entry++)
        {
        if (entry == 1)
        {
            // every probe also through parse(std::vector<user_input>), on a parser replayed afresh
            L = Live();
            R = RefState();
            replay(h, L, R);
        }
        auto got = entry == 0 ? run_on(*L.p, D, av) : run_on_vector(*L.p, D, av);
        if (rep)
            rep->count("executions");
        StepResult s;
        if (R.letter_conflict())
        {
            if (got.ok || got.why.rfind("parser_error", 0) != 0)
            {
                s.diverged = true;
                s.clause = "parser-with-shared-letter-parses";
                s.detail = "two items share a letter in state " + R.key() + " but parse(" + mc::jlist(av) + ") gave " +
                           (got.ok ? got.str() : got.why);
            }
        }
        else
        {
            auto want = refparse(D, av, {});
            auto d = compare(want, got);
            if (!d.empty())
            {
                s.diverged = true;
                s.clause = "spelling-resolves-to-wrong-item(" + d[0].clause + ")";
                s.detail = "state " + R.key() + " parse(" + mc::jlist(av) + "): " + d[0].detail;
            }
        }
        if (s.diverged)
        {
            if (entry == 1)
                s.detail += " [through parse(std::vector<user_input>)]";
            out.push_back(s);
        }
        }
    }
    return out;
}

static std::string hist_json(const std::vector<Ev>& h)
{
    std::vector<std::string> s;
    for (auto& e : h)
        s.push_back(e.str());
    return mc::J().l("history", s).str();
}
static std::string hist_cls(const std::vector<Ev>& h)
{
    std::string s;
    for (auto& e : h)
        s += (s.empty() ? "" : " ") + e.cls();
    return s;
}
static Ev parse_ev(const std::string& s)
{
    for (auto& e : alphabet())
        if (e.str() == s)
            return e;
    throw std::runtime_error("unknown event " + s);
}

// check one history completely: steps + probes at the end; records violations
static bool check_history(const std::vector<Ev>& h, mc::Report& rep, long idx, bool with_probes)
{
    Live L;
    RefState R;
    StepResult sr;
    rep.count("executions");
    int at = replay(h, L, R, &sr);
    if (at >= 0)
    {
        std::vector<Ev> w(h.begin(), h.begin() + at + 1);
        // minimise: drop earlier events while the same clause diverges at the end
        bool changed = true;
        while (changed && rep.want_witness())
        {
            changed = false;
            for (size_t i = 0; i + 1 < w.size(); i++)
            {
                auto c = w;
                c.erase(c.begin() + i);
                Live L2;
                RefState R2;
                StepResult s2;
                int a2 = replay(c, L2, R2, &s2);
                if (a2 == static_cast<int>(c.size()) - 1 && s2.clause == sr.clause)
                {
                    w = c;
                    changed = true;
                    break;
                }
            }
        }
        rep.violation(sr.clause, "C13:" + sr.clause + ":" + hist_cls(w), hist_json(w), sr.detail, idx);
        return false;
    }
    if (with_probes)
        for (auto& p : probes(h, &rep))
            rep.violation(p.clause, "C13:" + p.clause + ":" + hist_cls(h), hist_json(h), p.detail, idx);
    return true;
}

// sizes: many declarations (beyond a fixed-size table or bitmask of letters / items).  n items of the three kinds in three
// groups with pairwise different letters parse; one more item re-using the letter of item k makes the parser refuse;
// re-declaring the k-th name with another kind or in another group is rejected; the identical re-declaration returns the
// identical object.  variant 0: fresh parser, 1: after a successful parse, 2: after the parser was moved
static void wide_case(int n, int variant, int k, mc::Report& rep)
{
                auto fail = [&](const std::string& clause, const std::string& detail) {
                    rep.violation(clause, "C13:" + clause + ":wide", mc::J().n("items", n).n("variant", variant).n("k", k).str(),
                                  std::to_string(n) + " items, " + (variant == 0 ? "fresh parser" : variant == 1 ? "after a successful parse" : "after a move") + ", k=" +
                                      std::to_string(k) + ": " + detail,
                                  0);
                };
                std::unique_ptr<no::parser> p(new no::parser("prog"));
                std::string letters;
                for (int c = 33; c < 127 && static_cast<int>(letters.size()) < n; c++)
                    if (c != '-' && c != '=')
                        letters += static_cast<char>(c);
                std::vector<void*> objs;
                const char* groups[] = { "", "g1", "arguments" };
                auto declare = [&](no::parser& q, int i, int kind, const std::string& group) -> void* {
                    std::string name = "item" + std::to_string(i);
                    no::group& g = group.empty() ? q.group() : q.group(group);
                    if (kind == 0)
                        return &g.option(name).optional();
                    if (kind == 1)
                        return &g.multi_option(name).optional();
                    return &g.toggle(name);
                };
                auto set_letter = [&](void* o, int kind, const std::string& l) {
                    if (kind == 0)
                        static_cast<no::option*>(o)->short_name(l);
                    else if (kind == 1)
                        static_cast<no::multi_option*>(o)->short_name(l);
                    else
                        static_cast<no::toggle*>(o)->short_name(l);
                };
                try
                {
                    for (int i = 0; i < n; i++)
                    {
                        void* o = declare(*p, i, i % 3, groups[(i / 3) % 3]);
                        set_letter(o, i % 3, std::string(1, letters[i]));
                        objs.push_back(o);
                    }
                    const char* argv0[] = { "prog" };
                    if (variant == 1)
                        p->parse(1, argv0);
                    if (variant == 2)
                    {
                        std::unique_ptr<no::parser> q(new no::parser(std::move(*p)));
                        p = std::move(q);
                    }
                    p->parse(1, argv0); // pairwise different letters: parses
                    rep.count("executions");
                    // identical re-declaration returns the identical object
                    if (declare(*p, k, k % 3, groups[(k / 3) % 3]) != objs[k])
                        fail("identical-redeclaration-returns-another-object", "item" + std::to_string(k));
                    // another kind / another group: rejected
                    for (int alt = 0; alt < 2; alt++)
                    {
                        bool threw = false;
                        try
                        {
                            if (alt == 0)
                                declare(*p, k, (k + 1) % 3, groups[(k / 3) % 3]);
                            else
                                declare(*p, k, k % 3, groups[(k / 3 + 1) % 3]);
                        }
                        catch (no::parser_error&)
                        {
                            threw = true;
                        }
                        if (!threw)
                            fail("conflicting-redeclaration-accepted", std::string("item") + std::to_string(k) + (alt ? " in another group" : " with another kind"));
                    }
                    p->parse(1, argv0); // still unambiguous
                    // one more item with the letter of item k
                    void* extra = declare(*p, n, 2, "arguments");
                    set_letter(extra, 2, std::string(1, letters[k]));
                    bool refused = false;
                    try
                    {
                        p->parse(1, argv0);
                    }
                    catch (no::parser_error&)
                    {
                        refused = true;
                    }
                    rep.count("executions");
                    if (!refused)
                        fail("parser-with-shared-letter-parses", "item" + std::to_string(n) + " shares the letter '" + std::string(1, letters[k]) + "' with item" + std::to_string(k));
                }
                catch (std::exception& e)
                {
                    fail("unambiguous-parser-refuses-to-parse", std::string("unexpected exception: ") + e.what());
                }
            }

int main(int argc, char** argv)
{
    auto a = mc::parse_args(argc, argv);
    auto alpha = alphabet();
    if (!a.replay.empty())
    {
        auto doc = js::load(a.replay);
        const js::Value& w = doc.has("witness") ? doc.at("witness") : doc;
        if (w.has("items"))
        {
            mc::Report rep;
            wide_case(static_cast<int>(w.n("items")), static_cast<int>(w.n("variant")), static_cast<int>(w.n("k")), rep);
            printf("replay C13: %d declarations\n", static_cast<int>(w.n("items")));
            for (auto& v : rep.violations)
                printf("  FAILED clause: %s\n    %s\n", v.second.clause.c_str(), v.second.detail.c_str());
            if (rep.violations.empty())
                printf("  conforms\n");
            return rep.violations.empty() ? 0 : 1;
        }
        std::vector<Ev> h;
        for (auto& s : w.strings("history"))
            h.push_back(parse_ev(s));
        mc::Report rep;
        check_history(h, rep, 0, true);
        printf("replay C13: %s\n", hist_json(h).c_str());
        for (auto& v : rep.violations)
            printf("  FAILED clause: %s\n    %s\n", v.second.clause.c_str(), v.second.detail.c_str());
        if (rep.violations.empty())
            printf("  history conforms to the reference at every step and probe\n");
        return rep.violations.empty() ? 0 : 1;
    }
    int d = a.thorough() ? 4 : 3;
    if (a.asan())
        d = a.thorough() ? 3 : 2;
    bool bfs = true;
    auto sh = sharded(a, "C13");
    sh.case_timeout_s = 300;
    sh.walk = [&](mc::Ctx& ctx) {
        // phase 1: every history up to depth d (no de-duplication); probes at every history of length < d and at d
        for (int len = 1; len <= d && !ctx.stop(); len++)
        {
            std::vector<size_t> ix(len, 0);
            for (;;)
            {
                long idx = ctx.next;
                auto make = [&] {
                    std::vector<Ev> h;
                    for (auto k : ix)
                        h.push_back(alpha[k]);
                    return h;
                };
                ctx.each([&] { auto h = make(); return mc::Desc{ hist_json(h), hist_cls(h) }; },
                         [&](mc::Report& rep) {
                             auto h = make();
                             rep.count("histories");
                             Live L;
                             RefState R;
                             bool ok = check_history(h, rep, idx, len <= 3);
                             if (ok)
                             {
                                 replay(h, L, R);
                                 rep.states.insert(mc::hash(R.key()));
                                 if (R.items.size() > 1 || R.moved)
                                     rep.nontrivial.insert(mc::hash(hist_json(h)));
                                 if (idx % 5003 == 0)
                                     rep.sample(hist_json(h));
                             }
                         });
                int p = len - 1;
                while (p >= 0 && ++ix[p] == alpha.size())
                    ix[p--] = 0;
                if (p < 0)
                    break;
            }
        }
        // phase 2: BFS to a fixpoint over reference states (+ moved / parsed flags) from the empty history.  Every shard walks
        // the whole graph (cheap: one replay per transition) but runs the oracle's probes only for its share of transitions.
        if (bfs)
            for (int shard = 0; shard < 16; shard++)
            {
                long idx = ctx.next;
                ctx.each([&] { return mc::Desc{ mc::J().s("phase", "bfs shard " + std::to_string(shard)).str(), "BFS" }; },
                         [&](mc::Report& rep) {
                             std::set<std::string> seen;
                             std::deque<std::vector<Ev>> frontier;
                             {
                                 RefState R;
                                 seen.insert(R.key());
                             }
                             frontier.push_back({});
                             long trans = 0;
                             size_t maxd = 0;
                             while (!frontier.empty())
                             {
                                 auto h = frontier.front();
                                 frontier.pop_front();
                                 for (auto& e : alpha)
                                 {
                                     auto nh = h;
                                     nh.push_back(e);
                                     Live L;
                                     RefState R;
                                     StepResult sr;
                                     int at = replay(nh, L, R, &sr);
                                     bool mine = static_cast<int>(mc::hash(hist_json(nh)) % 16) == shard;
                                     if (mine)
                                     {
                                         trans++;
                                         rep.count("executions");
                                     }
                                     if (at >= 0)
                                     {
                                         if (mine)
                                             check_history(nh, rep, idx, false);
                                         continue;
                                     }
                                     if (mine)
                                     {
                                         rep.transitions.insert(mc::hash(R.key() + "<-" + e.str() + "<-" + std::to_string(mc::hash(hist_json(h)))));
                                         // probes after every transition (not only into new states): hidden state that the key does not
                                         // capture still gets its spellings checked along every explored path
                                         for (auto& p : probes(nh, &rep))
                                             rep.violation(p.clause, "C13:" + p.clause + ":" + hist_cls(nh), hist_json(nh), p.detail, idx);
                                     }
                                     if (seen.insert(R.key()).second)
                                     {
                                         if (shard == 0)
                                         {
                                             rep.states.insert(mc::hash(R.key()));
                                             rep.outcomes.insert(mc::hash(R.key()));
                                         }
                                         frontier.push_back(nh);
                                         maxd = std::max(maxd, nh.size());
                                     }
                                 }
                             }
                             if (shard == 0)
                                 rep.count("bfs_states", seen.size());
                             rep.count("bfs_transitions", trans);
                             rep.set_max("max_bfs_depth", maxd);
                             if (shard == 0)
                                 rep.count("bfs_fixpoints");
                         });
            }
    };
    auto rep = sh.run();
    for (int n : { 33, 65, 90 })
        for (int variant = 0; variant < 3; variant++)
            for (int k : { 0, n / 2, n - 1 })
                wide_case(n, variant, k, rep);
    rep.counters["bound_history_depth"] = d;
    rep.counters["events"] = alpha.size();
    rep.notes["rule"] = "32 events (declare 3 kinds x names a|b x parser|g1|arguments (a group named like the heading of the default group), option ab; short_name x|y|''|'xy'; MOVE destroying / keeping the old parser; PARSE); every history of "
                        "length <= d without de-duplication, then BFS to a fixpoint de-duplicated on the reference state + moved "
                        "flag from each first event; probes (empty vector, every long and short spelling) at every state; "
                        "non-trivial = histories reaching a state with two items or after a MOVE";
    mc::write_out(a, rep);
    return 0;
}

// C11 - a toggle counts its occurrences; reversal and environment words follow fixed rules.
// Engine B: toggle declarations (short or not, reversible or not, default 0/1/3, env bound or not; alone, next to
// a second toggle and an option) x every vector up to the bound over the occurrence alphabet; closed-world check
// of the environment vocabulary over every string up to a length bound, all case variants and single edits.
#include "parser_check.hpp"

#include <nitro/options/option/toggle.hpp>

using namespace pc;

static std::vector<Decl> declarations()
{
    std::vector<Decl> ds;
    for (int sh = 0; sh < 2; sh++)
        for (int rev = 0; rev < 2; rev++)
            for (int def : { 0, 1, 3 })
                for (int env = 0; env < 2; env++)
                    for (int company = 0; company < 4; company++)
                    {
                        // company 2 / 3: the two toggles live in different groups (the other one in a named group that sorts
                        // behind / the toggle under test in one that sorts before the default group), so bundles span groups
                        Decl D;
                        auto t = Item::tog("tog", sh ? "t" : "", rev, def);
                        if (env)
                            t.with_env("VP_T");
                        if (company == 3)
                            t.group = "Zgroup";
                        D.items.push_back(t);
                        if (company)
                        {
                            auto n = Item::tog("note", "u", true); // a name that begins with "no" but not with "no-"
                            if (company == 2)
                                n.group = "extra";
                            D.items.push_back(n);
                            D.items.push_back(Item::opt("opt", "o"));
                        }
                        D.accepted = 1;
                        ds.push_back(D);
                    }
    return ds;
}

static const std::vector<std::string>& alphabet()
{
    static const std::vector<std::string> a = { "--tog", "-t",       "-tt", "-tu", "-ut",     "-ttu", "--no-tog",
                                                "--note", "--no-note", "-u",  "x",   "--opt=x", "-utt", "-tut" };
    return a;
}

static std::vector<std::string> env_words()
{
    std::vector<std::string> w = { "\x01", "" };
    for (auto& t : truthy())
        w.push_back(t);
    for (auto& f : falsy())
        w.push_back(f);
    for (auto s : { "maybe", "2", "tRUE", "yES", " yes", "yes ", "TRUE\n", "01", "-1", "--tog", "oN", "nO", "t", "f",
                    "enable", "WITHOUT ", "Y ", "00", "\xff" })
        w.push_back(s);
    return w;
}

static bool judged(const std::string& c)
{
    return c == "toggle-count" || c == "provided-flags" || c == "rejected-but-must-accept" ||
           c == "accepted-but-must-reject(toggle-not-reversible)" ||
           c == "accepted-but-must-reject(toggle-both-polarities)" || c == "accepted-but-must-reject(env-word)" ||
           c == "foreign-exception";
}

// closed world of the environment vocabulary
static const char WORD_ALPHA[] = "TRUEtrueFALSfalsONonYyWIHwih01 ";

static std::string check_word(const std::string& w)
{
    int expect = truthy().count(w) ? 1 : falsy().count(w) ? 0 : -1;
    int got = -2;
    std::string what;
    try
    {
        got = nitro::options::toggle::parse_env_value(w) ? 1 : 0;
    }
    catch (nitro::options::parsing_error&)
    {
        got = -1;
    }
    catch (std::exception& e)
    {
        got = -3;
        what = e.what();
    }
    if (got == expect)
        return "";
    auto name = [](int v) { return v == 1 ? "truthy" : v == 0 ? "falsy" : v == -1 ? "user-input error" : "another exception"; };
    return std::string("word '") + w + "': expected " + name(expect) + ", got " + name(got) + " " + what;
}

int main(int argc, char** argv)
{
    auto a = mc::parse_args(argc, argv);
    ParserCheck chk{ "C11", judged, true };
    if (!a.replay.empty())
    {
        auto doc = js::load(a.replay);
        const js::Value& w = doc.has("witness") ? doc.at("witness") : doc;
        if (w.has("word"))
        {
            auto r = check_word(w.s("word"));
            printf("replay C11 word %s: %s\n", mc::jstr(w.s("word")).c_str(), r.empty() ? "conforms" : r.c_str());
            return r.empty() ? 0 : 1;
        }
        return chk.replay(a.replay);
    }
    auto decls = declarations();
    auto& alpha = alphabet();
    auto words = env_words();
    int n = a.thorough() ? 4 : 3;
    int m = a.thorough() ? 5 : 4;
    if (a.asan())
    {
        n -= 1;
        m -= 1;
    }
    const int NA = sizeof(WORD_ALPHA) - 1;
    auto sh = sharded(a, "C11");
    sh.walk = [&](mc::Ctx& ctx) {
        // (1) occurrence patterns
        for (auto& D : decls)
            for_all_vectors(alpha, n, ctx, [&](const std::vector<std::string>& av) {
                long idx = ctx.next;
                ctx.each([&] { return chk.describe(D, av, {}); },
                         [&](mc::Report& rep) { chk.run_case(D, av, {}, rep, idx); });
            });
        // (1b) the same toggle parsed a second time on one parser object: counts, reversal and defaults must not carry over
        {
            std::vector<std::vector<std::string>> firsts = { {}, { "-t" }, { "--tog", "--tog" }, { "--no-tog" }, { "--tog", "--no-tog" } };
            for (auto& D : decls)
                for (auto& f : firsts)
                    for_all_vectors(alpha, n - 1, ctx, [&](const std::vector<std::string>& av) {
                        long idx = ctx.next;
                        ctx.each([&] { return chk.describe(D, av, {}); },
                                 [&](mc::Report& rep) { chk.run_second(D, f, {}, av, {}, rep, idx); });
                    });
        }
        // (1c) the toggle (or its short name) is declared through a kept reference after the parser has been used, or the
        // parser object held the next declaration of the grid before
        for (size_t di = 0; di < decls.size(); di++)
            for_all_vectors(alpha, a.asan() ? 1 : 2, ctx, [&](const std::vector<std::string>& av) { chk.used_before(ctx, decls[di], decls[(di + 9) % decls.size()], av, {}); });
        // (1d) sizes: many occurrences (beyond what a narrow counter or a small fixed table holds), as separate tokens, in one
        // bundle, as long spellings, mixed with the second toggle
        for (size_t di = 0; di < decls.size(); di++)
        {
            const Decl& D = decls[di];
            if (D.items[0].sh.empty() || D.items[0].tdef != 0 || !D.items[0].env.empty())
                continue;
            for (size_t n : { 127u, 128u, 255u, 256u, 257u, 1000u, 65536u })
            {
                if (a.asan() && n > 1000)
                    continue;
                std::vector<std::vector<std::string>> avs;
                avs.push_back(std::vector<std::string>(n, "-t"));
                avs.push_back({ "-" + std::string(n, 't') });
                avs.push_back(std::vector<std::string>(n, "--tog"));
                if (D.items.size() > 1)
                {
                    std::string mix;
                    for (size_t i = 0; i < n; i++)
                        mix += i % 3 ? 't' : 'u';
                    avs.push_back({ "-" + mix });
                }
                for (auto& av : avs)
                {
                    long idx = ctx.next;
                    ctx.each([&] { return chk.describe(D, av, {}); },
                             [&](mc::Report& rep) { chk.run_case(D, av, {}, rep, idx); });
                }
            }
        }
        // (1d') ramp: EVERY number of occurrences from 4 to 1100 (300 under ASan), as separate tokens and in one bundle, on the
        // first plain lettered declaration - a complete range, so a threshold at 10, 100, 1000 or in between is inside
        for (size_t di = 0; di < decls.size(); di++)
        {
            const Decl& D = decls[di];
            if (D.items[0].sh.empty() || D.items[0].tdef != 0 || !D.items[0].env.empty())
                continue;
            for (size_t n = 4; n <= (a.asan() ? 300u : 1100u); n++)
                for (auto av : { std::vector<std::string>(n, "-t"), std::vector<std::string>{ "-" + std::string(n, 't') } })
                {
                    long idx = ctx.next;
                    ctx.each([&] { return chk.describe(D, av, {}); }, [&](mc::Report& rep) { chk.run_case(D, av, {}, rep, idx); });
                }
            break;
        }
        // (1e) sizes: 60 toggles (beyond a 32- or 64-bit mask over toggles), defaults 0 / 1 / 2 by rank; every bundle of two
        // letters with one of them at the ranks around 31 / 32 and at the ends, and every toggle alone
        {
            Decl W;
            std::string letters = "abcdefghijklmnopqrstuvwxyzABCDEFGHIJKLMNOPQRSTUVWXYZ01234567";
            for (int i = 0; i < 60; i++)
            {
                char nm[16];
                snprintf(nm, sizeof nm, "flag%02d", i);
                W.items.push_back(Item::tog(nm, std::string(1, letters[i]), i % 2 == 0, i % 3));
            }
            W.accepted = 0;
            std::vector<std::vector<std::string>> avs = { {} };
            for (int i : { 0, 1, 30, 31, 32, 33, 34, 58, 59 })
                for (int j = 0; j < 60; j++)
                {
                    avs.push_back({ std::string("-") + letters[i] + letters[j] });
                    avs.push_back({ std::string("-") + letters[j] + letters[i] + letters[j] });
                }
            for (int j = 0; j < 60; j++)
            {
                avs.push_back({ std::string("-") + letters[j] });
                avs.push_back({ "--" + W.items[j].name });
                if (W.items[j].rev)
                    avs.push_back({ "--no-" + W.items[j].name });
            }
            avs.push_back({ "-" + letters });
            for (auto& av : avs)
            {
                long idx = ctx.next;
                ctx.each([&] { return chk.describe(W, av, {}); }, [&](mc::Report& rep) { chk.run_case(W, av, {}, rep, idx); });
            }
        }
        // (1f) particular names: one toggle's long name extends the other's (`tog`, `tog-more`), both reversible or not
        for (int r1 = 0; r1 < 2; r1++)
            for (int r2 = 0; r2 < 2; r2++)
                for (int d1 : { 0, 1 })
                {
                    Decl P;
                    P.items = { Item::tog("tog", "t", r1, d1), Item::tog("tog-more", "m", r2, 1 - d1), Item::tog("to", "", true) };
                    P.accepted = 0;
                    std::vector<std::string> al = { "--tog", "--no-tog", "--tog-more", "--no-tog-more", "--to", "--no-to", "-t", "-m", "-tm" };
                    for_all_vectors(al, a.asan() ? 2 : 3, ctx, [&](const std::vector<std::string>& av) {
                        long idx = ctx.next;
                        ctx.each([&] { return chk.describe(P, av, {}); }, [&](mc::Report& rep) { chk.run_case(P, av, {}, rep, idx); });
                    });
                }
        // (2) environment words through parse(), with and without the toggle on the command line
        for (auto& D : decls)
        {
            if (D.items[0].env.empty())
                continue;
            for (auto& w : words)
            {
                Env env;
                if (w != "\x01")
                    env["VP_T"] = w;
                for_all_vectors(alpha, 1, ctx, [&](const std::vector<std::string>& av) {
                    long idx = ctx.next;
                    ctx.each([&] { return chk.describe(D, av, env); },
                             [&](mc::Report& rep) { chk.run_case(D, av, env, rep, idx); });
                });
            }
        }
        // (2b) the SAME parser object parsed twice with the environment word changed in between (in place: the entry keeps its
        // address, see ref::put_in_place): every ordered pair of words, on the first declaration of each env-bound shape,
        // without the toggle on the command line and with one occurrence in the second parse
        {
            int shapes = 0;
            for (auto& D : decls)
            {
                if (D.items[0].env.empty() || D.items.size() > 1)
                    continue;
                if (++shapes > 6)
                    break;
                for (auto& w1 : words)
                    for (auto& w2 : words)
                    {
                        if (w1 == w2)
                            continue;
                        Env e1, e2;
                        if (w1 != "\x01")
                            e1["VP_T"] = w1;
                        if (w2 != "\x01")
                            e2["VP_T"] = w2;
                        for (auto av : { std::vector<std::string>{}, std::vector<std::string>{ "--tog" } })
                        {
                            long idx = ctx.next;
                            ctx.each([&] { return chk.describe(D, av, e2); }, [&](mc::Report& rep) { chk.run_second(D, {}, e1, av, e2, rep, idx); });
                        }
                    }
            }
        }
        // (3) closed world: every string of length <= m over the vocabulary's characters (one case per 2-char prefix)
        auto word_case = [&](const std::vector<std::string>& ws, const std::string& label) {
            long idx = ctx.next;
            ctx.each([&] { return mc::Desc{ mc::J().s("word_set", label).str(), "WORDS" }; },
                     [&](mc::Report& rep) {
                         for (auto& w : ws)
                         {
                             rep.count("words");
                             rep.count("executions");
                             auto r = check_word(w);
                             if (!r.empty())
                                 rep.violation("env-vocabulary-closed-world", "C11:env-vocabulary:" +
                                                   std::string(truthy().count(w) || falsy().count(w) ? "documented-word" : "undocumented-word"),
                                               mc::J().s("word", w).str(), r, idx);
                         }
                     });
        };
        for (int c0 = -1; c0 < NA; c0++)
            for (int c1 = -1; c1 < NA; c1++)
            {
                if (c0 < 0 && c1 >= 0)
                    continue;
                std::string prefix;
                if (c0 >= 0)
                    prefix += WORD_ALPHA[c0];
                if (c1 >= 0)
                    prefix += WORD_ALPHA[c1];
                std::vector<std::string> ws;
                if (prefix.size() < 2)
                    ws.push_back(prefix);
                else
                {
                    int rest = m - 2;
                    std::vector<int> ix;
                    // all suffixes of length 0..rest
                    for (int len = 0; len <= rest; len++)
                    {
                        ix.assign(len, 0);
                        for (;;)
                        {
                            std::string w = prefix;
                            for (int k : ix)
                                w += WORD_ALPHA[k];
                            ws.push_back(w);
                            int p = len - 1;
                            while (p >= 0 && ++ix[p] == NA)
                                ix[p--] = 0;
                            if (p < 0)
                                break;
                        }
                    }
                }
                if (ctx.mode == mc::Ctx::RUN && (ctx.next % ctx.nworkers != ctx.worker))
                {
                    ctx.next++; // not ours: skip building nothing else
                    continue;
                }
                word_case(ws, "prefix '" + prefix + "' + all suffixes");
            }
        // (4) all case variants and single-character edits of the 30 documented words
        std::vector<std::string> vocab(truthy().begin(), truthy().end());
        vocab.insert(vocab.end(), falsy().begin(), falsy().end());
        for (auto& v : vocab)
        {
            std::vector<std::string> ws;
            for (unsigned mask = 0; mask < (1u << v.size()); mask++)
            {
                std::string w = v;
                for (size_t k = 0; k < v.size(); k++)
                    w[k] = (mask >> k & 1) ? toupper(w[k]) : tolower(w[k]);
                ws.push_back(w);
            }
            for (size_t pos = 0; pos <= v.size(); pos++)
                for (int c = 0; c < NA; c++)
                {
                    ws.push_back(v.substr(0, pos) + WORD_ALPHA[c] + v.substr(pos)); // insertion
                    if (pos < v.size())
                    {
                        auto s = v;
                        s[pos] = WORD_ALPHA[c];
                        ws.push_back(s); // substitution
                    }
                }
            for (size_t pos = 0; pos < v.size(); pos++)
                ws.push_back(v.substr(0, pos) + v.substr(pos + 1)); // deletion
            word_case(ws, "case variants and single edits of '" + v + "'");
        }
    };
    auto rep = sh.run();
    rep.counters["bound_argv_len"] = n;
    rep.counters["bound_word_len"] = m;
    rep.counters["declarations"] = decls.size();
    rep.counters["env_words_through_parse"] = words.size();
    rep.notes["rule"] = "96 toggle declarations (incl. the two toggles in different groups) x every vector of length <= bound over the 14-token occurrence alphabet; "
                        "env words through parse(); closed world: every string of length <= bound over the vocabulary's "
                        "31 characters + all case variants + single edits; non-trivial = distinct (declaration, token-class "
                        "sequence, env class) with an option-like token or bound environment";
    mc::write_out(a, rep);
    return 0;
}

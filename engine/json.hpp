// Minimal JSON reader for replay files (witnesses written by mc::J / mc::jstr).  \u00XX escapes are
// decoded to single bytes, which is exactly how mc::jstr encodes non-ASCII and control bytes.
#pragma once

#include <cstdlib>
#include <fstream>
#include <map>
#include <memory>
#include <sstream>
#include <stdexcept>
#include <string>
#include <vector>

namespace js
{
struct Value
{
    enum Type
    {
        Null,
        Bool,
        Num,
        Str,
        Arr,
        Obj
    } type = Null;
    bool b = false;
    double num = 0;
    std::string str;
    std::vector<Value> arr;
    std::vector<std::pair<std::string, Value>> obj;

    const Value* find(const std::string& k) const
    {
        for (auto& kv : obj)
            if (kv.first == k)
                return &kv.second;
        return nullptr;
    }
    const Value& at(const std::string& k) const
    {
        auto v = find(k);
        if (!v)
            throw std::runtime_error("replay file: missing key " + k);
        return *v;
    }
    bool has(const std::string& k) const
    {
        return find(k) != nullptr;
    }
    std::string s(const std::string& k, const std::string& def = "") const
    {
        auto v = find(k);
        return v && v->type == Str ? v->str : def;
    }
    long long n(const std::string& k, long long def = 0) const
    {
        auto v = find(k);
        return v && v->type == Num ? static_cast<long long>(v->num) : def;
    }
    bool flag(const std::string& k, bool def = false) const
    {
        auto v = find(k);
        return v && v->type == Bool ? v->b : def;
    }
    std::vector<std::string> strings(const std::string& k) const
    {
        std::vector<std::string> out;
        auto v = find(k);
        if (v)
            for (auto& e : v->arr)
                out.push_back(e.str);
        return out;
    }
};

struct Parser
{
    const std::string& s;
    size_t p = 0;
    explicit Parser(const std::string& src) : s(src)
    {
    }
    void ws()
    {
        while (p < s.size() && (s[p] == ' ' || s[p] == '\n' || s[p] == '\t' || s[p] == '\r'))
            p++;
    }
    [[noreturn]] void fail(const std::string& m)
    {
        throw std::runtime_error("JSON: " + m + " at offset " + std::to_string(p));
    }
    Value value()
    {
        ws();
        if (p >= s.size())
            fail("unexpected end");
        Value v;
        char c = s[p];
        if (c == '{')
        {
            v.type = Value::Obj;
            p++;
            ws();
            if (s[p] == '}')
            {
                p++;
                return v;
            }
            for (;;)
            {
                ws();
                auto k = value();
                if (k.type != Value::Str)
                    fail("key expected");
                ws();
                if (s[p++] != ':')
                    fail(": expected");
                v.obj.emplace_back(k.str, value());
                ws();
                if (s[p] == ',')
                {
                    p++;
                    continue;
                }
                if (s[p] == '}')
                {
                    p++;
                    return v;
                }
                fail(", or } expected");
            }
        }
        if (c == '[')
        {
            v.type = Value::Arr;
            p++;
            ws();
            if (s[p] == ']')
            {
                p++;
                return v;
            }
            for (;;)
            {
                v.arr.push_back(value());
                ws();
                if (s[p] == ',')
                {
                    p++;
                    continue;
                }
                if (s[p] == ']')
                {
                    p++;
                    return v;
                }
                fail(", or ] expected");
            }
        }
        if (c == '"')
        {
            v.type = Value::Str;
            p++;
            while (p < s.size() && s[p] != '"')
            {
                if (s[p] == '\\')
                {
                    p++;
                    char e = s[p++];
                    switch (e)
                    {
                    case 'n':
                        v.str += '\n';
                        break;
                    case 't':
                        v.str += '\t';
                        break;
                    case 'r':
                        v.str += '\r';
                        break;
                    case 'b':
                        v.str += '\b';
                        break;
                    case 'f':
                        v.str += '\f';
                        break;
                    case 'u':
                    {
                        unsigned code = strtoul(s.substr(p, 4).c_str(), nullptr, 16);
                        p += 4;
                        if (code < 0x100)
                            v.str += static_cast<char>(code);
                        else
                        { // UTF-8 encode
                            if (code < 0x800)
                            {
                                v.str += static_cast<char>(0xC0 | (code >> 6));
                                v.str += static_cast<char>(0x80 | (code & 0x3F));
                            }
                            else
                            {
                                v.str += static_cast<char>(0xE0 | (code >> 12));
                                v.str += static_cast<char>(0x80 | ((code >> 6) & 0x3F));
                                v.str += static_cast<char>(0x80 | (code & 0x3F));
                            }
                        }
                        break;
                    }
                    default:
                        v.str += e;
                    }
                }
                else
                    v.str += s[p++];
            }
            p++;
            return v;
        }
        if (s.compare(p, 4, "null") == 0)
        {
            p += 4;
            return v;
        }
        if (s.compare(p, 4, "true") == 0)
        {
            p += 4;
            v.type = Value::Bool;
            v.b = true;
            return v;
        }
        if (s.compare(p, 5, "false") == 0)
        {
            p += 5;
            v.type = Value::Bool;
            return v;
        }
        char* end = nullptr;
        v.num = strtod(s.c_str() + p, &end);
        if (end == s.c_str() + p)
            fail("value expected");
        p = end - s.c_str();
        v.type = Value::Num;
        return v;
    }
};

inline Value parse(const std::string& text)
{
    Parser p(text);
    return p.value();
}
inline Value load(const std::string& path)
{
    std::ifstream in(path, std::ios::binary);
    if (!in)
        throw std::runtime_error("cannot open " + path);
    std::stringstream ss;
    ss << in.rdbuf();
    return parse(ss.str());
}
} // namespace js

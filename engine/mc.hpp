// Common machinery of the explorers: report (counters, state/transition sets, violations),
// JSON output, hashing, and a fork pool that shards a deterministic enumeration over worker
// processes with per-case crash / hang attribution.  See DESIGN.md sections 3 and 4.
#pragma once

#include <algorithm>
#include <cerrno>
#include <csignal>
#include <cstdint>
#include <cstdio>
#include <cstdlib>
#include <cstring>
#include <fstream>
#include <functional>
#include <map>
#include <set>
#include <sstream>
#include <string>
#include <unordered_set>
#include <vector>

#include <fcntl.h>
#include <sys/mman.h>
#include <sys/resource.h>
#include <sys/time.h>
#include <sys/wait.h>
#include <unistd.h>

namespace mc
{

// ---------------------------------------------------------------------------------------------
// hashing / JSON helpers

inline uint64_t fnv(const void* p, size_t n, uint64_t h = 1469598103934665603ull)
{
    const unsigned char* c = static_cast<const unsigned char*>(p);
    for (size_t i = 0; i < n; i++)
    {
        h ^= c[i];
        h *= 1099511628211ull;
    }
    return h;
}
inline uint64_t hash(const std::string& s, uint64_t h = 1469598103934665603ull)
{
    return fnv(s.data(), s.size(), fnv("\x1f", 1, h));
}
inline uint64_t hash2(uint64_t a, uint64_t b)
{
    uint64_t x[2] = { a, b };
    return fnv(x, sizeof x);
}

// JSON string literal; bytes >= 0x80 and control bytes are written as \u00XX so that the file is
// always valid UTF-8 / JSON whatever the witness contains.
inline std::string jstr(const std::string& s)
{
    std::string o = "\"";
    char buf[8];
    for (unsigned char c : s)
    {
        if (c == '"')
            o += "\\\"";
        else if (c == '\\')
            o += "\\\\";
        else if (c == '\n')
            o += "\\n";
        else if (c == '\t')
            o += "\\t";
        else if (c < 0x20 || c >= 0x7f)
        {
            snprintf(buf, sizeof buf, "\\u%04x", c);
            o += buf;
        }
        else
            o += static_cast<char>(c);
    }
    return o + "\"";
}
inline std::string jlist(const std::vector<std::string>& v)
{
    std::string o = "[";
    for (size_t i = 0; i < v.size(); i++)
        o += (i ? "," : "") + jstr(v[i]);
    return o + "]";
}
// builder for small JSON objects: J().s("k","v").n("n",3).raw("x","[1,2]").str()
struct J
{
    std::string o = "{";
    bool first = true;
    J& key(const std::string& k)
    {
        if (!first)
            o += ",";
        first = false;
        o += jstr(k) + ":";
        return *this;
    }
    J& s(const std::string& k, const std::string& v)
    {
        key(k);
        o += jstr(v);
        return *this;
    }
    J& n(const std::string& k, long long v)
    {
        key(k);
        o += std::to_string(v);
        return *this;
    }
    J& b(const std::string& k, bool v)
    {
        key(k);
        o += v ? "true" : "false";
        return *this;
    }
    J& raw(const std::string& k, const std::string& v)
    {
        key(k);
        o += v;
        return *this;
    }
    J& l(const std::string& k, const std::vector<std::string>& v)
    {
        key(k);
        o += jlist(v);
        return *this;
    }
    std::string str() const
    {
        return o + "}";
    }
};

// hex escape for our own line-based worker protocol (tab / newline free)
inline std::string enc(const std::string& s)
{
    static const char* hx = "0123456789abcdef";
    std::string o;
    for (unsigned char c : s)
    {
        if (c == '%' || c == '\t' || c == '\n' || c == '\r' || c == 0)
        {
            o += '%';
            o += hx[c >> 4];
            o += hx[c & 15];
        }
        else
            o += static_cast<char>(c);
    }
    return o;
}
inline std::string dec(const std::string& s)
{
    std::string o;
    for (size_t i = 0; i < s.size(); i++)
    {
        if (s[i] == '%' && i + 2 < s.size())
        {
            auto h = [](char c) { return c <= '9' ? c - '0' : c - 'a' + 10; };
            o += static_cast<char>(h(s[i + 1]) * 16 + h(s[i + 2]));
            i += 2;
        }
        else
            o += s[i];
    }
    return o;
}

// ---------------------------------------------------------------------------------------------
// report

struct Violation
{
    std::string clause;    // which sentence of the oracle failed
    std::string signature; // <ID>:<clause>:<class sequence of the minimal witness>
    std::string witness;   // JSON value, enough to replay
    std::string detail;    // expected vs observed
    long index = -1;       // enumeration index (lowest wins when merging)
    long count = 0;        // how many cases collapsed onto this signature
};

struct Report
{
    std::map<std::string, long long> counters;
    std::unordered_set<uint64_t> states, transitions, outcomes, nontrivial;
    std::map<std::string, Violation> violations;
    long long total_violations = 0;
    std::vector<std::string> samples; // JSON values
    std::map<std::string, std::string> notes;
    size_t max_witnesses = 400;
    size_t max_samples = 6;

    void count(const std::string& k, long long n = 1)
    {
        counters[k] += n;
    }
    void set_max(const std::string& k, long long v)
    {
        auto& c = counters[k];
        if (v > c)
            c = v;
    }
    void sample(const std::string& json)
    {
        if (samples.size() < max_samples)
            samples.push_back(json);
    }
    bool want_witness() const
    {
        return violations.size() < max_witnesses;
    }
    void violation(const std::string& clause, const std::string& signature,
                   const std::string& witness, const std::string& detail, long index = -1)
    {
        total_violations++;
        auto it = violations.find(signature);
        if (it == violations.end())
        {
            if (violations.size() >= max_witnesses)
            {
                // keep counting under a catch-all entry; verdict is unaffected
                auto& v = violations["(overflow)"];
                if (v.count++ == 0)
                {
                    v.clause = clause;
                    v.signature = "(overflow)";
                    v.witness = witness;
                    v.detail = "more distinct signatures than max_witnesses; first: " + detail;
                    v.index = index;
                }
                return;
            }
            Violation v{ clause, signature, witness, detail, index, 1 };
            violations.emplace(signature, v);
        }
        else
        {
            it->second.count++;
            if (index >= 0 && (it->second.index < 0 || index < it->second.index))
            {
                it->second.index = index;
                it->second.witness = witness;
                it->second.detail = detail;
            }
        }
    }

    void merge(const Report& o)
    {
        for (auto& c : o.counters)
        {
            if (c.first.rfind("max_", 0) == 0)
                set_max(c.first, c.second);
            else
                counters[c.first] += c.second;
        }
        states.insert(o.states.begin(), o.states.end());
        transitions.insert(o.transitions.begin(), o.transitions.end());
        outcomes.insert(o.outcomes.begin(), o.outcomes.end());
        nontrivial.insert(o.nontrivial.begin(), o.nontrivial.end());
        total_violations += o.total_violations;
        for (auto& kv : o.violations)
        {
            auto it = violations.find(kv.first);
            if (it == violations.end())
                violations.emplace(kv.first, kv.second);
            else
            {
                it->second.count += kv.second.count;
                if (kv.second.index >= 0 &&
                    (it->second.index < 0 || kv.second.index < it->second.index))
                {
                    long c = it->second.count;
                    it->second = kv.second;
                    it->second.count = c;
                }
            }
        }
        for (auto& s : o.samples)
            sample(s);
        for (auto& n : o.notes)
            notes[n.first] = n.second;
    }

    void save(const std::string& path) const
    {
        FILE* f = fopen(path.c_str(), "w");
        if (!f)
        {
            perror(path.c_str());
            _exit(97);
        }
        for (auto& c : counters)
            fprintf(f, "C\t%s\t%lld\n", enc(c.first).c_str(), c.second);
        auto dump = [&](char tag, const std::unordered_set<uint64_t>& s) {
            for (auto h : s)
                fprintf(f, "%c\t%llx\n", tag, static_cast<unsigned long long>(h));
        };
        dump('S', states);
        dump('T', transitions);
        dump('O', outcomes);
        dump('N', nontrivial);
        fprintf(f, "X\t%lld\n", total_violations);
        for (auto& kv : violations)
        {
            auto& v = kv.second;
            fprintf(f, "V\t%s\t%s\t%s\t%s\t%ld\t%ld\n", enc(v.clause).c_str(),
                    enc(v.signature).c_str(), enc(v.witness).c_str(), enc(v.detail).c_str(),
                    v.index, v.count);
        }
        for (auto& s : samples)
            fprintf(f, "P\t%s\n", enc(s).c_str());
        for (auto& n : notes)
            fprintf(f, "M\t%s\t%s\n", enc(n.first).c_str(), enc(n.second).c_str());
        fprintf(f, "END\n");
        fclose(f);
    }

    // returns false if the file is missing or truncated (worker died before finishing)
    bool load(const std::string& path)
    {
        std::ifstream in(path);
        if (!in)
            return false;
        std::string line;
        bool complete = false;
        while (std::getline(in, line))
        {
            if (line == "END")
            {
                complete = true;
                break;
            }
            std::vector<std::string> f;
            size_t s = 0;
            for (;;)
            {
                auto p = line.find('\t', s);
                if (p == std::string::npos)
                {
                    f.push_back(line.substr(s));
                    break;
                }
                f.push_back(line.substr(s, p - s));
                s = p + 1;
            }
            if (f[0] == "C" && f.size() == 3)
            {
                auto k = dec(f[1]);
                if (k.rfind("max_", 0) == 0)
                    set_max(k, atoll(f[2].c_str()));
                else
                    counters[k] += atoll(f[2].c_str());
            }
            else if (f[0] == "S")
                states.insert(strtoull(f[1].c_str(), nullptr, 16));
            else if (f[0] == "T")
                transitions.insert(strtoull(f[1].c_str(), nullptr, 16));
            else if (f[0] == "O")
                outcomes.insert(strtoull(f[1].c_str(), nullptr, 16));
            else if (f[0] == "N")
                nontrivial.insert(strtoull(f[1].c_str(), nullptr, 16));
            else if (f[0] == "X")
                total_violations += atoll(f[1].c_str());
            else if (f[0] == "V" && f.size() == 7)
            {
                Violation v{ dec(f[1]), dec(f[2]), dec(f[3]), dec(f[4]), atol(f[5].c_str()),
                             atol(f[6].c_str()) };
                auto it = violations.find(v.signature);
                if (it == violations.end())
                    violations.emplace(v.signature, v);
                else
                {
                    long c = it->second.count + v.count;
                    if (v.index >= 0 && (it->second.index < 0 || v.index < it->second.index))
                        it->second = v;
                    it->second.count = c;
                }
            }
            else if (f[0] == "P")
                sample(dec(f[1]));
            else if (f[0] == "M" && f.size() == 3)
                notes[dec(f[1])] = dec(f[2]);
        }
        return complete;
    }

    // final JSON consumed by bin/check
    std::string json() const
    {
        std::string o = "{";
        o += "\"counters\":{";
        bool first = true;
        for (auto& c : counters)
        {
            o += (first ? "" : ",") + jstr(c.first) + ":" + std::to_string(c.second);
            first = false;
        }
        o += "},\"states\":" + std::to_string(states.size());
        o += ",\"transitions\":" + std::to_string(transitions.size());
        o += ",\"outcomes\":" + std::to_string(outcomes.size());
        o += ",\"nontrivial\":" + std::to_string(nontrivial.size());
        o += ",\"total_violations\":" + std::to_string(total_violations);
        o += ",\"samples\":[";
        for (size_t i = 0; i < samples.size(); i++)
            o += (i ? "," : "") + samples[i];
        o += "],\"notes\":{";
        first = true;
        for (auto& n : notes)
        {
            o += (first ? "" : ",") + jstr(n.first) + ":" + jstr(n.second);
            first = false;
        }
        o += "},\"violations\":[";
        first = true;
        // order by enumeration index so the shortest witness comes first
        std::vector<const Violation*> vs;
        for (auto& kv : violations)
            vs.push_back(&kv.second);
        std::sort(vs.begin(), vs.end(), [](const Violation* a, const Violation* b) {
            if (a->index != b->index)
                return a->index < b->index;
            return a->signature < b->signature;
        });
        for (auto v : vs)
        {
            o += first ? "" : ",";
            first = false;
            o += J().s("clause", v->clause)
                     .s("signature", v->signature)
                     .raw("witness", v->witness.empty() ? "null" : v->witness)
                     .s("detail", v->detail)
                     .n("index", v->index)
                     .n("count", v->count)
                     .str();
        }
        o += "]}";
        return o;
    }
};

// ---------------------------------------------------------------------------------------------
// command line of a driver

struct Args
{
    std::string tier = "quick";
    std::string variant = "plain"; // plain | asan | ...
    std::string out;
    std::string replay;
    std::string tmpdir = ".";
    int jobs = 16;
    double deadline_s = 0; // 0 = none; wall clock budget for this invocation
    bool thorough() const
    {
        return tier == "thorough";
    }
    bool asan() const
    {
        return variant.find("asan") != std::string::npos;
    }
};
inline Args parse_args(int argc, char** argv)
{
    Args a;
    for (int i = 1; i < argc; i++)
    {
        std::string k = argv[i];
        auto val = [&]() -> std::string {
            if (i + 1 >= argc)
            {
                fprintf(stderr, "missing value for %s\n", k.c_str());
                exit(2);
            }
            return argv[++i];
        };
        if (k == "--tier")
            a.tier = val();
        else if (k == "--variant")
            a.variant = val();
        else if (k == "--out")
            a.out = val();
        else if (k == "--replay")
            a.replay = val();
        else if (k == "--tmp")
            a.tmpdir = val();
        else if (k == "--jobs")
            a.jobs = atoi(val().c_str());
        else if (k == "--deadline")
            a.deadline_s = atof(val().c_str());
        else
        {
            fprintf(stderr, "unknown argument %s\n", k.c_str());
            exit(2);
        }
    }
    return a;
}
inline void write_out(const Args& a, const Report& r)
{
    auto j = r.json();
    if (a.out.empty())
    {
        puts(j.c_str());
        return;
    }
    FILE* f = fopen(a.out.c_str(), "w");
    if (!f)
    {
        perror(a.out.c_str());
        exit(2);
    }
    fputs(j.c_str(), f);
    fclose(f);
}
inline double now_s()
{
    struct timeval tv;
    gettimeofday(&tv, nullptr);
    return tv.tv_sec + tv.tv_usec * 1e-6;
}

// ---------------------------------------------------------------------------------------------
// sharded enumeration
//
// The check provides one function `walk(Ctx&)` that enumerates ALL cases in a fixed order and calls
// ctx.each(describe, execute) for every case.  Every worker process walks the whole enumeration but
// executes only the cases whose index is congruent to its id.  Before a case runs, its index is
// published in shared memory and a per-case interval timer is armed, so a crash, sanitizer abort or
// hang is attributed to exactly one case, which the parent then re-renders by walking in DESCRIBE
// mode.  The worker is restarted behind the failed case.

struct Desc
{
    std::string witness;   // JSON
    std::string classes;   // class sequence for the signature
};

struct Ctx
{
    enum Mode
    {
        RUN,
        DESCRIBE,
        SINGLE
    } mode = RUN;
    int worker = 0, nworkers = 1;
    long next = 0;       // running enumeration index
    long resume = 0;     // RUN: skip indices below
    long limit = -1;     // RUN: skip indices at or above (when >= 0)
    long target = -1;    // DESCRIBE / SINGLE
    volatile long* slot = nullptr;
    int case_timeout_s = 5;
    int rerun_factor = 4;
    double deadline = 0; // absolute; RUN stops taking cases after it
    bool hit_deadline = false;
    bool done = false;   // DESCRIBE/SINGLE finished
    Desc described;
    Report rep;
    long current = -1;

    bool stop() const
    {
        return done || hit_deadline;
    }

    template <typename D, typename E>
    void each(D&& describe, E&& execute)
    {
        long idx = next++;
        if (mode == DESCRIBE)
        {
            if (idx == target)
            {
                described = describe();
                done = true;
            }
            return;
        }
        if (mode == SINGLE)
        {
            if (idx != target)
                return;
            current = idx;
            arm(case_timeout_s * rerun_factor);
            execute(rep);
            arm(0);
            done = true;
            return;
        }
        if (idx % nworkers != worker || idx < resume || hit_deadline ||
            (limit >= 0 && idx >= limit))
            return;
        if (deadline > 0 && (idx / nworkers) % 64 == 0 && now_s() > deadline)
        {
            hit_deadline = true;
            rep.set_max("max_deadline_cut_index", idx);
            return;
        }
        current = idx;
        if (slot)
            *slot = idx;
        arm(case_timeout_s);
        execute(rep);
        arm(0);
        rep.count("cases");
    }
    static void arm(int s)
    {
        struct itimerval it;
        memset(&it, 0, sizeof it);
        it.it_value.tv_sec = s;
        setitimer(ITIMER_REAL, &it, nullptr);
    }
};

struct Sharded
{
    int nworkers = 16;
    int case_timeout_s = 5;
    double deadline_s = 0;  // relative budget
    int max_restarts = 8;   // per worker; beyond that the shard is abandoned (exhaustive: false)
    int fatal_exit_code = -1; // a worker that exits with this status has met a condition under which the exploration cannot go
                              // on at all (engine C: a thread waits on something the scheduler does not model); it is reported
                              // once per worker and no shard is restarted
    int rerun_factor = 4;   // a timed-out case is re-run alone with this multiple of the limit
    int max_confirmed_hangs = 6; // after that many confirmed hangs further time-outs are taken at face value
    std::string tmpdir = ".";
    std::string id = "C00";   // used for temp file names
    std::string prop;         // property id used in violation signatures (default: id)
    std::function<void(Ctx&)> walk;
    // called in the parent for a case whose worker died: build clause/signature
    // (default: "<id>:crash:<classes>")

    std::string tail(const std::string& path, size_t n = 1500)
    {
        std::ifstream in(path, std::ios::binary);
        std::stringstream ss;
        ss << in.rdbuf();
        auto s = ss.str();
        if (s.size() > n)
            s = s.substr(s.size() - n);
        return s;
    }

    Desc describe(long idx)
    {
        Ctx c;
        c.mode = Ctx::DESCRIBE;
        c.target = idx;
        walk(c);
        return c.described;
    }

    Report run()
    {
        if (prop.empty())
            prop = id;
        Report total;
        double t0 = now_s();
        double deadline = deadline_s > 0 ? t0 + deadline_s : 0;
        long* slots = static_cast<long*>(mmap(nullptr, 4096, PROT_READ | PROT_WRITE,
                                              MAP_SHARED | MAP_ANONYMOUS, -1, 0));
        struct W
        {
            pid_t pid = -1;
            long resume = 0;
            int restarts = 0;
            bool finished = false;
        };
        std::vector<W> ws(nworkers);
        bool aborted = false;
        int live = 0;
        const pid_t self = getpid();
        auto fname = [&](int w, const char* ext) {
            return tmpdir + "/" + id + "." + std::to_string(self) + ".w" + std::to_string(w) +
                   ext;
        };
        auto spawn = [&](int w) {
            slots[w] = -1;
            fflush(stdout);
            fflush(stderr);
            pid_t p = fork();
            if (p < 0)
            {
                perror("fork");
                exit(2);
            }
            if (p == 0)
            {
                int fd = open(fname(w, ".err").c_str(), O_WRONLY | O_CREAT | O_TRUNC, 0644);
                if (fd >= 0)
                {
                    dup2(fd, 2);
                    close(fd);
                }
                Ctx c;
                c.worker = w;
                c.nworkers = nworkers;
                c.resume = ws[w].resume;
                c.slot = &slots[w];
                c.case_timeout_s = case_timeout_s;
                c.deadline = deadline;
                walk(c);
                if (c.hit_deadline)
                    c.rep.count("deadline_hit");
                c.rep.save(fname(w, ".res"));
                _exit(0);
            }
            ws[w].pid = p;
            live++;
        };
        for (int w = 0; w < nworkers; w++)
            spawn(w);
        while (live > 0)
        {
            int st = 0;
            pid_t p = wait(&st);
            if (p < 0)
            {
                if (errno == EINTR)
                    continue;
                break;
            }
            int w = -1;
            for (int i = 0; i < nworkers; i++)
                if (ws[i].pid == p)
                    w = i;
            if (w < 0)
                continue;
            live--;
            ws[w].pid = -1;
            Report part;
            bool complete = part.load(fname(w, ".res"));
            if (WIFEXITED(st) && WEXITSTATUS(st) == 0 && complete)
            {
                total.merge(part);
                ws[w].finished = true;
                unlink(fname(w, ".res").c_str());
                unlink(fname(w, ".err").c_str());
                continue;
            }
            // the worker died inside case slots[w]; everything it had found so far is lost with
            // it, so the shard is re-run from its previous resume point up to that case in a fresh
            // worker (cases are deterministic) - simpler: re-run whole shard but skip the bad case.
            long bad = slots[w];
            std::string how;
            if (WIFSIGNALED(st))
                how = std::string("signal ") + strsignal(WTERMSIG(st));
            else
                how = "exit status " + std::to_string(WEXITSTATUS(st));
            std::string err = tail(fname(w, ".err"));
            bool hang = WIFSIGNALED(st) && WTERMSIG(st) == SIGALRM;
            if (bad < 0)
            {
                total.violation("harness", prop + ":harness:worker-died-outside-case", "null",
                                how + " | " + err, 0);
                ws[w].finished = true;
                continue;
            }
            Desc d = describe(bad);
            if (hang && total.counters["confirmed_hangs"] >= max_confirmed_hangs)
            {
                total.violation("hang", prop + ":hang:" + d.classes, d.witness,
                                "case did not finish within " + std::to_string(case_timeout_s) +
                                    " s (not re-run alone: several hangs were already confirmed)", bad);
            }
            else if (hang)
            {
                // re-run alone with a longer limit before calling it a hang
                fflush(stdout);
                pid_t q = fork();
                if (q == 0)
                {
                    Ctx c;
                    c.mode = Ctx::SINGLE;
                    c.target = bad;
                    c.case_timeout_s = case_timeout_s;
                    c.rerun_factor = rerun_factor;
                    walk(c);
                    c.rep.save(fname(w, ".single"));
                    _exit(0);
                }
                int st2 = 0;
                waitpid(q, &st2, 0);
                Report single;
                if (WIFEXITED(st2) && WEXITSTATUS(st2) == 0 && single.load(fname(w, ".single")))
                {
                    single.count("slow_cases");
                    single.count("cases");
                    total.merge(single);
                }
                else
                {
                    total.count("confirmed_hangs");
                    total.violation("hang", prop + ":hang:" + d.classes, d.witness,
                                    "case did not finish within " +
                                        std::to_string(case_timeout_s * rerun_factor) + " s when re-run alone",
                                    bad);
                }
                unlink(fname(w, ".single").c_str());
            }
            else if (fatal_exit_code >= 0 && WIFEXITED(st) && WEXITSTATUS(st) == fatal_exit_code)
            {
                aborted = true;
                total.violation("exploration-impossible", prop + ":exploration-impossible:" + d.classes, d.witness, how + " | " + err, bad);
            }
            else
            {
                std::string clause = "crash";
                if (err.find("Sanitizer") != std::string::npos ||
                    err.find("runtime error:") != std::string::npos)
                    clause = "sanitizer";
                if (err.find("terminate called") != std::string::npos)
                    clause = "terminate";
                total.violation(clause, prop + ":" + clause + ":" + d.classes, d.witness,
                                how + " | " + err, bad);
            }
            total.count("worker_restarts");
            // The dead worker's accumulated results are lost with it.  Cases are deterministic, so
            // the lost part [old resume, bad) of this shard is re-executed by a helper process and
            // the shard is then restarted behind the bad case.
            if (!aborted && ws[w].restarts++ < max_restarts)
            {
                long old = ws[w].resume;
                fflush(stdout);
                pid_t q = fork();
                if (q == 0)
                {
                    int fd = open("/dev/null", O_WRONLY);
                    dup2(fd, 2);
                    Ctx c;
                    c.worker = w;
                    c.nworkers = nworkers;
                    c.resume = old;
                    c.limit = bad;
                    c.case_timeout_s = case_timeout_s;
                    c.deadline = deadline;
                    walk(c);
                    c.rep.save(fname(w, ".pre"));
                    _exit(0);
                }
                int st3 = 0;
                waitpid(q, &st3, 0);
                Report pre;
                if (WIFEXITED(st3) && WEXITSTATUS(st3) == 0 && pre.load(fname(w, ".pre")))
                    total.merge(pre);
                else
                    total.count("lost_shard_prefixes");
                unlink(fname(w, ".pre").c_str());
                ws[w].resume = bad + 1;
                spawn(w);
            }
            else
            {
                total.count("shards_abandoned");
                ws[w].finished = true;
            }
        }
        munmap(slots, 4096);
        for (int w = 0; w < nworkers; w++)
        {
            unlink(fname(w, ".res").c_str());
            unlink(fname(w, ".err").c_str());
        }
        total.counters["wall_ms"] = static_cast<long long>((now_s() - t0) * 1000);
        return total;
    }
};

} // namespace mc

/* Cooperative scheduler for engine C: real pthreads, exactly one of which runs at any time; every hooked
 * synchronisation point hands control back to the controller, which picks the next thread according to a
 * recorded choice sequence.  See DESIGN.md 3.3. */
#ifndef VERIF_SCHED_H
#define VERIF_SCHED_H

#ifdef __cplusplus
extern "C" {
#endif

enum
{
    SP_START = 1,
    SP_EXIT,
    SP_LOCK,
    SP_UNLOCK,
    SP_TRYLOCK,
    SP_BYTE,
    SP_SYNC,
    SP_USER
};

#define SCHED_MAX_THREADS 4
#define SCHED_MAX_POINTS 512
#define SCHED_MAX_MUTEXES 8

struct sched_point_rec
{
    unsigned char enabled[SCHED_MAX_THREADS]; /* canonical order: running thread first if enabled, then ascending ids */
    unsigned char n_enabled;
    unsigned char chosen;        /* index into enabled[] */
    unsigned char running;       /* thread that ran before this point (255 = none) */
    unsigned char running_enabled;
    unsigned char op[SCHED_MAX_THREADS]; /* pending operation of every thread (0 = finished / not started) */
    unsigned long long state;            /* digest of the whole program state at this choice point (see sched_set_state_fn) */
};

struct sched_result
{
    int n_points;
    struct sched_point_rec points[SCHED_MAX_POINTS];
    int deadlock;          /* no enabled thread while some are unfinished */
    int diverged;          /* replaying the prefix met a choice that was out of range */
    int overflow;          /* more than SCHED_MAX_POINTS scheduling points */
    int trylock_failures;
    int stuck;             /* a thread did not reach a scheduling point within the watchdog time (the process exits with 97) */
};

/* run `nthreads` bodies under the scheduler; choices[0..nchoices) are replayed (index into the canonical enabled
 * list), afterwards choice 0 is taken at every point. */
void sched_run(int nthreads, void (*body)(int thread, void* arg), void* arg, const unsigned char* choices, int nchoices,
               struct sched_result* res);

/* called by hooked operations of a scheduled thread; no-op for other threads or when no exploration is active */
void sched_point(int op, void* obj);
/* A scheduled thread reports a value it has just read from shared state (a failed / successful try-lock, a buffer
 * position ...).  The values are folded into a per-thread observation digest: a deterministic thread's local state is a
 * function of how far it has come and of what it has observed. */
void sched_observe(unsigned long long value);
/* digest of the shared state outside the scheduler's own model (called by the controller while every thread is parked) */
void sched_set_state_fn(unsigned long long (*fn)(void));
int sched_active_thread(void); /* id of the calling scheduled thread or -1 */

#ifdef __cplusplus
}
#endif
#endif

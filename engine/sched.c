/* Cooperative scheduler for engine C (see sched.h).  Compiled WITHOUT sanitizer instrumentation.
 *
 * Exactly one scheduled thread runs at a time.  At every scheduling point the running thread publishes its pending
 * operation and parks on a private futex word; the controller (the thread that called sched_run) waits until every
 * started thread is parked or finished, computes the enabled set from a model of the mutexes (owner table), picks a
 * thread according to the choice sequence, applies the effect of the chosen operation to the model and wakes it.
 * "No enabled thread while some are unfinished" is reported as deadlock.
 */
#define _GNU_SOURCE
#include "sched.h"

#include <errno.h>
#include <linux/futex.h>
#include <pthread.h>
#include <stdio.h>
#include <stdlib.h>
#include <string.h>
#include <sys/syscall.h>
#include <unistd.h>

enum
{
    ST_NEW = 0,
    ST_PARKED,
    ST_RUNNING,
    ST_FINISHED
};

static __thread int my_id = -1;
static int active;
static int nthr;
static int state[SCHED_MAX_THREADS];
static int pend_op[SCHED_MAX_THREADS];
static void* pend_obj[SCHED_MAX_THREADS];
static int go[SCHED_MAX_THREADS];
static int ctl;
static void* mtx_addr[SCHED_MAX_MUTEXES];
static int mtx_owner[SCHED_MAX_MUTEXES];
static void (*the_body)(int, void*);
static void* the_arg;
static unsigned long long obs[SCHED_MAX_THREADS]; /* observation digest per thread */
static int passed[SCHED_MAX_THREADS];             /* scheduling points passed per thread */
static unsigned long long (*state_fn)(void);

static unsigned long long mix(unsigned long long h, unsigned long long v)
{
    h ^= v + 0x9e3779b97f4a7c15ull + (h << 6) + (h >> 2);
    return h * 0xff51afd7ed558ccdull;
}
void sched_observe(unsigned long long value)
{
    int id = my_id;
    if (id >= 0 && __atomic_load_n(&active, __ATOMIC_SEQ_CST))
        obs[id] = mix(obs[id], value);
}
void sched_set_state_fn(unsigned long long (*fn)(void))
{
    state_fn = fn;
}

#ifndef SCHED_WATCHDOG_S
#define SCHED_WATCHDOG_S 8
#endif
static long futex(int* uaddr, int op, int val)
{
    return syscall(SYS_futex, uaddr, op, val, NULL, NULL, 0);
}
/* wait with a time-out (seconds); returns -1 with errno ETIMEDOUT when it elapsed */
static long futex_timed(int* uaddr, int val, int seconds)
{
    struct timespec ts;
    ts.tv_sec = seconds;
    ts.tv_nsec = 0;
    return syscall(SYS_futex, uaddr, FUTEX_WAIT_PRIVATE, val, &ts, NULL, 0);
}
static void wake(int* w)
{
    futex(w, FUTEX_WAKE_PRIVATE, 64);
}

int sched_active_thread(void)
{
    return __atomic_load_n(&active, __ATOMIC_SEQ_CST) ? my_id : -1;
}

void sched_point(int op, void* obj)
{
    int id = my_id;
    if (id < 0 || !__atomic_load_n(&active, __ATOMIC_SEQ_CST))
        return;
    pend_op[id] = op;
    pend_obj[id] = obj;
    __atomic_store_n(&state[id], ST_PARKED, __ATOMIC_SEQ_CST);
    __atomic_add_fetch(&ctl, 1, __ATOMIC_SEQ_CST);
    wake(&ctl);
    while (__atomic_load_n(&go[id], __ATOMIC_SEQ_CST) == 0)
        futex(&go[id], FUTEX_WAIT_PRIVATE, 0);
    __atomic_store_n(&go[id], 0, __ATOMIC_SEQ_CST);
}

static void* thread_main(void* p)
{
    int id = (int)(long)p;
    my_id = id;
    sched_point(SP_START, NULL);
    the_body(id, the_arg);
    sched_point(SP_EXIT, NULL);
    pend_op[id] = 0;
    __atomic_store_n(&state[id], ST_FINISHED, __ATOMIC_SEQ_CST);
    __atomic_add_fetch(&ctl, 1, __ATOMIC_SEQ_CST);
    wake(&ctl);
    my_id = -1;
    return NULL;
}

static int mtx_slot(void* a)
{
    int i, free_slot = -1;
    for (i = 0; i < SCHED_MAX_MUTEXES; i++)
    {
        if (mtx_addr[i] == a)
            return i;
        if (!mtx_addr[i] && free_slot < 0)
            free_slot = i;
    }
    if (free_slot < 0)
    {
        fprintf(stderr, "sched: too many mutexes\n");
        abort();
    }
    mtx_addr[free_slot] = a;
    mtx_owner[free_slot] = -1;
    return free_slot;
}

void sched_run(int nthreads, void (*body)(int, void*), void* arg, const unsigned char* choices, int nchoices, struct sched_result* res)
{
    pthread_t th[SCHED_MAX_THREADS];
    int i, running = -1;
    memset(res, 0, sizeof *res);
    memset(state, 0, sizeof state);
    memset(go, 0, sizeof go);
    memset(pend_op, 0, sizeof pend_op);
    memset(mtx_addr, 0, sizeof mtx_addr);
    memset(obs, 0, sizeof obs);
    memset(passed, 0, sizeof passed);
    nthr = nthreads;
    the_body = body;
    the_arg = arg;
    __atomic_store_n(&active, 1, __ATOMIC_SEQ_CST);
    for (i = 0; i < nthreads; i++)
        pthread_create(&th[i], NULL, thread_main, (void*)(long)i);
    for (;;)
    {
        int c, quiet, all_done = 1, n_en = 0, en[SCHED_MAX_THREADS];
        /* wait until every thread is parked or finished */
        for (;;)
        {
            c = __atomic_load_n(&ctl, __ATOMIC_SEQ_CST);
            quiet = 1;
            for (i = 0; i < nthreads; i++)
            {
                int s = __atomic_load_n(&state[i], __ATOMIC_SEQ_CST);
                if (s == ST_NEW || s == ST_RUNNING)
                    quiet = 0;
            }
            if (quiet)
                break;
            /* The running thread must reach its next scheduling point (or finish) by itself.  If it does not within
             * SCHED_WATCHDOG_S seconds it spins or blocks on something this scheduler does not model (a hand-written
             * spin lock on atomics, a condition variable, ...).  The exploration cannot continue - all other threads are
             * parked - so this is reported at once instead of running into the job's time limit. */
            if (futex_timed(&ctl, c, SCHED_WATCHDOG_S) == -1 && errno == ETIMEDOUT)
            {
                int still = 0;
                for (i = 0; i < nthreads; i++)
                {
                    int s2 = __atomic_load_n(&state[i], __ATOMIC_SEQ_CST);
                    if (s2 == ST_NEW || s2 == ST_RUNNING)
                        still = 1;
                }
                if (still && __atomic_load_n(&ctl, __ATOMIC_SEQ_CST) == c)
                {
                    static const char msg[] = "SCHED: a scheduled thread did not reach a scheduling point within the watchdog time: it waits (spins or blocks) on "
                                              "something the scheduler does not model while every other thread is parked\n";
                    (void)!write(2, msg, sizeof msg - 1);
                    res->stuck = 1;
                    _exit(97);
                }
            }
        }
        for (i = 0; i < nthreads; i++)
            if (state[i] != ST_FINISHED)
                all_done = 0;
        if (all_done)
            break;
        /* enabled set in canonical order */
        if (running >= 0 && state[running] == ST_PARKED)
        {
            int blocked = pend_op[running] == SP_LOCK && mtx_owner[mtx_slot(pend_obj[running])] >= 0;
            if (!blocked)
                en[n_en++] = running;
        }
        for (i = 0; i < nthreads; i++)
        {
            int blocked;
            if (i == running || state[i] != ST_PARKED)
                continue;
            blocked = pend_op[i] == SP_LOCK && mtx_owner[mtx_slot(pend_obj[i])] >= 0;
            if (!blocked)
                en[n_en++] = i;
        }
        if (n_en == 0)
        {
            res->deadlock = 1;
            break;
        }
        {
            int choice = 0, chosen, op;
            int np = res->n_points;
            if (np < nchoices)
            {
                choice = choices[np];
                if (choice >= n_en)
                {
                    res->diverged = 1;
                    choice = 0;
                }
            }
            chosen = en[choice];
            if (np < SCHED_MAX_POINTS)
            {
                struct sched_point_rec* r = &res->points[np];
                r->n_enabled = (unsigned char)n_en;
                for (i = 0; i < n_en; i++)
                    r->enabled[i] = (unsigned char)en[i];
                r->chosen = (unsigned char)choice;
                r->running = (unsigned char)(running < 0 ? 255 : running);
                r->running_enabled = (unsigned char)(running >= 0 && n_en > 0 && en[0] == running);
                for (i = 0; i < nthreads; i++)
                    r->op[i] = (unsigned char)(state[i] == ST_PARKED ? pend_op[i] : 0);
                {
                    /* every thread is parked or finished: the whole program state can be read */
                    unsigned long long h = 0x1234567ull;
                    for (i = 0; i < nthreads; i++)
                    {
                        h = mix(h, (unsigned long long)state[i]);
                        h = mix(h, (unsigned long long)(state[i] == ST_PARKED ? pend_op[i] : 0));
                        h = mix(h, (unsigned long long)passed[i]);
                        h = mix(h, obs[i]);
                    }
                    for (i = 0; i < SCHED_MAX_MUTEXES; i++)
                        if (mtx_addr[i])
                            h = mix(h, (unsigned long long)(mtx_owner[i] + 2) * 31 + (unsigned long long)i);
                    if (state_fn)
                        h = mix(h, state_fn());
                    r->state = h;
                }
                res->n_points = np + 1;
            }
            else
                res->overflow = 1;
            op = pend_op[chosen];
            if (op == SP_LOCK)
                mtx_owner[mtx_slot(pend_obj[chosen])] = chosen;
            else if (op == SP_UNLOCK)
                mtx_owner[mtx_slot(pend_obj[chosen])] = -1;
            else if (op == SP_TRYLOCK)
            {
                int s = mtx_slot(pend_obj[chosen]);
                if (mtx_owner[s] < 0)
                    mtx_owner[s] = chosen;
                else
                    res->trylock_failures++;
            }
            running = chosen;
            passed[chosen]++;
            __atomic_store_n(&state[chosen], ST_RUNNING, __ATOMIC_SEQ_CST);
            __atomic_store_n(&go[chosen], 1, __ATOMIC_SEQ_CST);
            wake(&go[chosen]);
        }
    }
    if (!res->deadlock)
        for (i = 0; i < nthreads; i++)
            pthread_join(th[i], NULL);
    __atomic_store_n(&active, 0, __ATOMIC_SEQ_CST);
}

#ifndef VP_NO_INTERPOSE
/* link-time interposition: std::mutex::lock()/unlock() inlined from nitro's headers resolve to these definitions in the
 * executable.  Threads that are not scheduled (and everything outside an exploration) pass straight through. */
/* glibc keeps the double-underscore aliases as compatibility symbols; bind to them explicitly */
extern int real_mutex_lock(pthread_mutex_t*);
extern int real_mutex_unlock(pthread_mutex_t*);
extern int real_mutex_trylock(pthread_mutex_t*);
__asm__(".symver real_mutex_lock,__pthread_mutex_lock@GLIBC_2.2.5");
__asm__(".symver real_mutex_unlock,__pthread_mutex_unlock@GLIBC_2.2.5");
__asm__(".symver real_mutex_trylock,__pthread_mutex_trylock@GLIBC_2.2.5");

int pthread_mutex_lock(pthread_mutex_t* m)
{
    sched_point(SP_LOCK, m);
    return real_mutex_lock(m);
}
int pthread_mutex_unlock(pthread_mutex_t* m)
{
    sched_point(SP_UNLOCK, m);
    return real_mutex_unlock(m);
}
int pthread_mutex_trylock(pthread_mutex_t* m)
{
    int r;
    sched_point(SP_TRYLOCK, m);
    r = real_mutex_trylock(m);
    sched_observe((unsigned long long)(r == 0));
    return r;
}
/* Timed acquisition (std::timed_mutex::try_lock_for/until): for a scheduled thread the waiting time is owned by the
 * scheduler - if the mutex is held at this point the time-out is taken to elapse (any time-out can), otherwise the
 * mutex is acquired.  Other threads use the real functions. */
#include <dlfcn.h>
#include <time.h>
int pthread_mutex_timedlock(pthread_mutex_t* m, const struct timespec* ts)
{
    static int (*real)(pthread_mutex_t*, const struct timespec*);
    if (sched_active_thread() >= 0)
    {
        int r;
        sched_point(SP_TRYLOCK, m);
        r = real_mutex_trylock(m);
        sched_observe((unsigned long long)(r == 0));
        return r == 0 ? 0 : ETIMEDOUT;
    }
    if (!real)
        real = (int (*)(pthread_mutex_t*, const struct timespec*))dlsym(RTLD_NEXT, "pthread_mutex_timedlock");
    return real(m, ts);
}
int pthread_mutex_clocklock(pthread_mutex_t* m, clockid_t c, const struct timespec* ts)
{
    static int (*real)(pthread_mutex_t*, clockid_t, const struct timespec*);
    if (sched_active_thread() >= 0)
    {
        int r;
        sched_point(SP_TRYLOCK, m);
        r = real_mutex_trylock(m);
        sched_observe((unsigned long long)(r == 0));
        return r == 0 ? 0 : ETIMEDOUT;
    }
    if (!real)
        real = (int (*)(pthread_mutex_t*, clockid_t, const struct timespec*))dlsym(RTLD_NEXT, "pthread_mutex_clocklock");
    return real(m, c, ts);
}
#endif

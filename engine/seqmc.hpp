// Engine A for small models: explicit-state breadth-first search over operation histories.
//
// A state is the history (list of operation strings) that produced it, replayed on freshly constructed real
// objects; it is keyed by a canonical string supplied by the model.  The search is level-synchronous: each level
// is one fork-sharded run over (frontier state x enabled operation); a worker replays the history, applies the
// operation under the oracle and reports the successor's key, which travels back to the parent as a report note.
// The canonical key is re-computed whenever a history is replayed and must equal the key recorded when the state
// was discovered (replay determinism is a hard harness error, not a verdict).
#pragma once

#include "json.hpp"
#include "mc.hpp"

#include <functional>
#include <map>

namespace seqmc
{
struct Finding
{
    std::string clause, detail;
};
struct Step
{
    std::vector<Finding> findings;
    std::string prefix_key; // canonical key after replaying the history (before the operation)
    std::string next_key;   // canonical key after the operation (empty: no successor, e.g. operation not enabled)
    std::string outcome;    // short class of what happened (for the distinct-outcome count)
};
struct Spec
{
    std::string id;   // property id
    std::string name; // model name (several models may serve one property)
    std::string initial_key;
    std::function<std::vector<std::string>(const std::string& key)> ops;
    std::function<Step(const std::vector<std::string>& history, const std::string& op)> step;
    int max_levels = 30;
    size_t max_states = 200000;
    int case_timeout_s = 20;
};

inline std::string join_hist(const std::vector<std::string>& h)
{
    std::string s;
    for (auto& o : h)
        s += (s.empty() ? "" : " ") + o;
    return s;
}
inline std::vector<std::string> split_hist(const std::string& s)
{
    std::vector<std::string> h;
    std::string cur;
    for (char c : s)
    {
        if (c == ' ')
        {
            if (!cur.empty())
                h.push_back(cur);
            cur.clear();
        }
        else
            cur += c;
    }
    if (!cur.empty())
        h.push_back(cur);
    return h;
}
inline std::string op_class(const std::string& op)
{
    std::string c;
    for (char ch : op)
    {
        if (isalpha(static_cast<unsigned char>(ch)) || ch == '_')
            c += ch;
        else
            break;
    }
    return c;
}

struct Result
{
    mc::Report rep;
    std::map<std::string, std::string> states; // key -> history
    bool fixpoint = false;
    int levels = 0;
};

inline Result explore(const Spec& spec, const mc::Args& args)
{
    Result res;
    res.states[spec.initial_key] = "";
    res.rep.states.insert(mc::hash(spec.name + spec.initial_key));
    std::vector<std::string> frontier = { spec.initial_key };
    double t0 = mc::now_s();
    while (!frontier.empty() && res.levels < spec.max_levels)
    {
        res.levels++;
        mc::Sharded sh;
        sh.id = spec.id + "." + spec.name + ".L" + std::to_string(res.levels);
        sh.prop = spec.id;
        sh.nworkers = args.jobs;
        sh.tmpdir = args.tmpdir;
        sh.case_timeout_s = spec.case_timeout_s;
        sh.walk = [&](mc::Ctx& ctx) {
            for (auto& key : frontier)
            {
                auto hist = split_hist(res.states[key]);
                for (auto& op : spec.ops(key))
                {
                    long idx = ctx.next;
                    ctx.each(
                        [&] {
                            return mc::Desc{ mc::J().s("model", spec.name).l("history", hist).s("op", op).str(), spec.name + ":" + op_class(op) };
                        },
                        [&](mc::Report& rep) {
                            auto st = spec.step(hist, op);
                            rep.count("executions");
                            rep.transitions.insert(mc::hash(spec.name + key + "|" + op));
                            rep.nontrivial.insert(mc::hash(spec.name + key + "|" + op));
                            rep.outcomes.insert(mc::hash(op_class(op) + ">" + st.outcome));
                            if (st.prefix_key != key)
                                rep.violation("harness-replay-diverged", spec.id + ":harness:replay-diverged:" + spec.name,
                                              mc::J().s("model", spec.name).l("history", hist).s("op", op).str(),
                                              "replaying the history gave state '" + st.prefix_key + "' but it was recorded as '" + key + "'", idx);
                            for (auto& f : st.findings)
                                rep.violation(f.clause, spec.id + ":" + f.clause + ":" + spec.name + ":" + op_class(op),
                                              mc::J().s("model", spec.name).l("history", hist).s("op", op).str(), f.detail, idx);
                            if (st.findings.empty() && !st.next_key.empty())
                            {
                                auto nh = hist;
                                nh.push_back(op);
                                rep.notes["S\t" + st.next_key] = join_hist(nh);
                            }
                            if (idx % 997 == 0)
                                rep.sample(mc::J().s("model", spec.name).s("state", key).l("history", hist).s("op", op).s("next_state", st.next_key).str());
                        });
                }
            }
        };
        auto rep = sh.run();
        frontier.clear();
        for (auto& n : rep.notes)
            if (n.first.rfind("S\t", 0) == 0)
            {
                auto k = n.first.substr(2);
                if (res.states.emplace(k, n.second).second)
                {
                    frontier.push_back(k);
                    res.rep.states.insert(mc::hash(spec.name + k));
                }
            }
        rep.notes.clear();
        res.rep.merge(rep);
        if (res.states.size() > spec.max_states || (args.deadline_s > 0 && mc::now_s() - t0 > args.deadline_s))
            break;
    }
    res.fixpoint = frontier.empty();
    if (!res.fixpoint)
        res.rep.count("capped");
    res.rep.counters["states_" + spec.name] = res.states.size();
    res.rep.counters["levels_" + spec.name] = res.levels;
    res.rep.counters["fixpoint_" + spec.name] = res.fixpoint ? 1 : 0;
    return res;
}

// replay of a witness {"model":..., "history":[...], "op":...}; returns 1 if a clause fails
inline int replay(const std::vector<Spec>& specs, const js::Value& w)
{
    for (auto& spec : specs)
    {
        if (spec.name != w.s("model"))
            continue;
        auto hist = w.strings("history");
        auto st = spec.step(hist, w.s("op"));
        printf("replay %s model %s: history [%s] then %s\n  state before: %s\n  state after : %s\n", spec.id.c_str(), spec.name.c_str(),
               join_hist(hist).c_str(), w.s("op").c_str(), st.prefix_key.c_str(), st.next_key.c_str());
        for (auto& f : st.findings)
            printf("  FAILED clause: %s\n    %s\n", f.clause.c_str(), f.detail.c_str());
        if (st.findings.empty())
            printf("  the operation conforms to the reference\n");
        return st.findings.empty() ? 0 : 1;
    }
    printf("unknown model %s\n", w.s("model").c_str());
    return 2;
}
} // namespace seqmc

// Reference model of nitro's command-line semantics (DESIGN.md section 5), written only from the
// property statements C01-C04, C11, C12, plus the glue that builds a real nitro parser from the same
// declaration, runs it, and snapshots everything observable through the public API.
#pragma once

#include <cstring>
#include <cerrno>
#include <nitro/options/parser.hpp>

#include "../engine/json.hpp"
#include "../engine/mc.hpp"

#include <cstdlib>
#include <functional>
#include <map>
#include <optional>
#include <set>
#include <string>
#include <vector>

namespace ref
{

struct Item
{
    char kind = 'o'; // 'o' option, 'm' multi-option, 't' toggle
    std::string name;
    std::string sh;  // short name or empty
    std::string env; // bound environment variable or empty
    bool has_def = false;
    std::string def;               // option default
    std::vector<std::string> mdef; // multi-option default
    int tdef = 0;                  // toggle default
    bool optional = false;
    bool rev = false; // toggle: reversible
    std::string group; // empty = default group

    static Item opt(std::string n, std::string s = "", bool optional = true)
    {
        Item i;
        i.kind = 'o';
        i.name = n;
        i.sh = s;
        i.optional = optional;
        return i;
    }
    static Item multi(std::string n, std::string s = "", bool optional = true)
    {
        Item i;
        i.kind = 'm';
        i.name = n;
        i.sh = s;
        i.optional = optional;
        return i;
    }
    static Item tog(std::string n, std::string s = "", bool rev = false, int def = 0)
    {
        Item i;
        i.kind = 't';
        i.name = n;
        i.sh = s;
        i.rev = rev;
        i.tdef = def;
        return i;
    }
    Item& with_env(std::string e)
    {
        env = e;
        return *this;
    }
    Item& with_def(std::string d)
    {
        has_def = true;
        def = d;
        mdef = { d };
        return *this;
    }
};

static const size_t UNLIMITED = static_cast<size_t>(-1);

struct Decl
{
    std::vector<Item> items;
    size_t accepted = 0;
    bool greedy = false;

    std::string str() const
    {
        std::string s;
        for (auto& i : items)
        {
            s += std::string(1, i.kind) + ":" + i.name;
            if (!i.sh.empty())
                s += "/" + i.sh;
            if (!i.env.empty())
                s += "@" + i.env;
            if (i.has_def)
                s += "=" + i.def;
            if (i.kind == 't' && i.tdef)
                s += "=" + std::to_string(i.tdef);
            if (i.kind != 't')
                s += i.optional ? "?" : "!";
            if (i.rev)
                s += "~";
            s += " ";
        }
        s += "pos=" + (accepted == UNLIMITED ? std::string("inf") : std::to_string(accepted));
        if (greedy)
            s += " greedy";
        return s;
    }
    const Item* by_name(const std::string& n) const
    {
        for (auto& i : items)
            if (i.name == n)
                return &i;
        return nullptr;
    }
    const Item* by_short(const std::string& s) const
    {
        for (auto& i : items)
            if (!i.sh.empty() && i.sh == s)
                return &i;
        return nullptr;
    }
};

using Env = std::map<std::string, std::string>; // variables that are set (possibly to "")

// Result of a parse as seen through the public API (reference and implementation share it)
struct Res
{
    bool ok = false;
    std::string why; // reference: reason of the rejection; implementation: exception class
    std::map<std::string, std::optional<std::string>> opt;
    std::map<std::string, std::vector<std::string>> multi;
    std::map<std::string, int> tog;
    std::vector<std::string> pos;
    std::set<std::string> provided;

    std::string str() const
    {
        if (!ok)
            return "REJECT(" + why + ")";
        std::string s = "OK";
        for (auto& o : opt)
            s += " " + o.first + "=" + (o.second ? "'" + *o.second + "'" : "<absent>");
        for (auto& m : multi)
        {
            s += " " + m.first + "=[";
            for (auto& v : m.second)
                s += "'" + v + "',";
            s += "]";
        }
        for (auto& t : tog)
            s += " " + t.first + "#" + std::to_string(t.second);
        s += " pos=[";
        for (auto& p : pos)
            s += "'" + p + "',";
        s += "] provided={";
        for (auto& p : provided)
            s += p + ",";
        s += "}";
        return s;
    }
};

inline bool is_value_token(const std::string& t)
{
    return t.empty() || t[0] != '-';
}

inline const std::set<std::string>& truthy()
{
    static const std::set<std::string> s = { "TRUE", "True", "true", "ON",   "On",   "on",   "YES", "Yes",
                                             "yes",  "Y",    "y",    "WITH", "With", "with", "1" };
    return s;
}
inline const std::set<std::string>& falsy()
{
    static const std::set<std::string> s = { "FALSE", "False", "false",   "OFF",     "Off",
                                             "off",   "NO",    "No",      "no",      "N",
                                             "n",     "WITHOUT", "Without", "without", "0" };
    return s;
}

// lexical shape of one token
struct Tok
{
    enum Shape
    {
        VALUE,
        SEP,
        LONG,
        SHORT,
        MALFORMED
    } shape = VALUE;
    std::string body; // name (LONG) or letters (SHORT)
    bool hasv = false;
    std::string val;
};
inline Tok lex(const std::string& t)
{
    Tok k;
    if (is_value_token(t))
        return k;
    if (t == "--")
    {
        k.shape = Tok::SEP;
        return k;
    }
    auto eq = t.find('=');
    std::string head = t.substr(0, eq);
    k.hasv = eq != std::string::npos;
    if (k.hasv)
        k.val = t.substr(eq + 1);
    if (head.size() > 2 && head[1] == '-' && head[2] != '-')
    {
        k.shape = Tok::LONG;
        k.body = head.substr(2);
    }
    else if (head.size() > 1 && head[1] != '-')
    {
        k.shape = Tok::SHORT;
        k.body = head.substr(1);
    }
    else
        k.shape = Tok::MALFORMED;
    return k;
}

// optional instrumentation of the reference automaton: abstract states and (state, class) steps
struct Trace
{
    std::unordered_set<uint64_t>* states = nullptr;
    std::unordered_set<uint64_t>* transitions = nullptr;
};

std::string token_class(const Decl& D, const std::string& t);

inline Res refparse(const Decl& D, const std::vector<std::string>& av, const Env& env,
                    Trace* tr = nullptr)
{
    Res r;
    std::map<std::string, bool> reversed;
    for (auto& i : D.items)
    {
        if (i.kind == 'o')
            r.opt[i.name] = std::nullopt;
        if (i.kind == 'm')
            r.multi[i.name];
        if (i.kind == 't')
            r.tog[i.name] = 0;
    }
    std::set<std::string> cmd;
    bool posmode = false;
    auto rej = [&](const std::string& w) {
        r.ok = false;
        r.why = w;
        return r;
    };
    auto abstract_state = [&]() {
        // mode, per item: has value / list length (capped) / count (capped) / reversed, #positionals capped
        std::string s = posmode ? "P" : "N";
        for (auto& i : D.items)
        {
            if (i.kind == 'o')
                s += r.opt[i.name] ? "v" : "-";
            if (i.kind == 'm')
                s += std::to_string(std::min<size_t>(r.multi[i.name].size(), 3));
            if (i.kind == 't')
                s += std::to_string(std::min(r.tog[i.name], 3)) + (reversed[i.name] ? "r" : "");
            s += ",";
        }
        s += std::to_string(std::min<size_t>(r.pos.size(), 4));
        return mc::hash(D.str() + "|" + s);
    };
    uint64_t st = tr ? abstract_state() : 0;
    if (tr && tr->states)
        tr->states->insert(st);
    auto step = [&](const std::string& t) {
        if (!tr)
            return;
        uint64_t nx = abstract_state();
        if (tr->transitions)
            tr->transitions->insert(mc::hash2(st, mc::hash(token_class(D, t))));
        if (tr->states)
            tr->states->insert(nx);
        st = nx;
    };
    for (size_t i = 0; i < av.size(); i++)
    {
        const std::string& t = av[i];
        if (posmode || is_value_token(t))
        {
            if (r.pos.size() == D.accepted)
                return rej("too-many-positionals");
            r.pos.push_back(t);
            if (D.greedy)
                posmode = true;
            step(t);
            continue;
        }
        Tok k = lex(t);
        if (k.shape == Tok::SEP)
        {
            posmode = true;
            step(t);
            continue;
        }
        if (k.shape == Tok::MALFORMED)
            return rej("malformed");
        const Item* target = nullptr;
        bool neg = false;
        std::vector<std::pair<const Item*, int>> tk;
        if (k.shape == Tok::LONG)
        {
            target = D.by_name(k.body);
            if (!target && k.body.rfind("no-", 0) == 0)
            {
                auto* c = D.by_name(k.body.substr(3));
                if (c && c->kind == 't')
                {
                    target = c;
                    neg = true;
                }
            }
            if (!target)
                return rej("unknown-long");
            if (target->kind == 't')
                tk.push_back({ target, 1 });
        }
        else if (k.body.size() == 1)
        {
            target = D.by_short(k.body);
            if (!target)
                return rej("unknown-letter");
            if (target->kind == 't')
                tk.push_back({ target, 1 });
        }
        else
        {
            if (k.hasv)
                return rej("bundle-with-value");
            for (char c : k.body)
            {
                const Item* f = D.by_short(std::string(1, c));
                if (!f || f->kind != 't')
                    return rej("bundle-nontoggle-letter");
                bool found = false;
                for (auto& p : tk)
                    if (p.first == f)
                    {
                        p.second++;
                        found = true;
                    }
                if (!found)
                    tk.push_back({ f, 1 });
            }
        }
        if (target && target->kind != 't')
        {
            std::string v;
            if (k.hasv)
                v = k.val;
            else if (i + 1 < av.size() && is_value_token(av[i + 1]))
                v = av[++i];
            else
                return rej("missing-value");
            if (target->kind == 'o')
            {
                if (r.opt[target->name])
                    return rej("option-given-twice");
                r.opt[target->name] = v;
            }
            else
                r.multi[target->name].push_back(v);
            cmd.insert(target->name);
            step(t);
            continue;
        }
        for (auto& kv : tk)
        {
            const Item* tg = kv.first;
            if (k.hasv)
                return rej("toggle-with-value");
            if (neg)
            {
                if (!tg->rev)
                    return rej("toggle-not-reversible");
                if (r.tog[tg->name] > 0)
                    return rej("toggle-both-polarities");
                r.tog[tg->name] = 0;
                reversed[tg->name] = true;
            }
            else
            {
                if (reversed[tg->name])
                    return rej("toggle-both-polarities");
                r.tog[tg->name] += kv.second;
            }
            cmd.insert(tg->name);
        }
        step(t);
    }
    for (auto& it : D.items)
    {
        if (cmd.count(it.name))
        {
            r.provided.insert(it.name);
            continue;
        }
        std::string ev;
        if (!it.env.empty())
        {
            auto e = env.find(it.env);
            if (e != env.end())
                ev = e->second;
        }
        if (it.kind == 'o')
        {
            if (!ev.empty())
            {
                r.opt[it.name] = ev;
                r.provided.insert(it.name);
            }
            else if (it.has_def)
                r.opt[it.name] = it.def;
            else if (!it.optional)
                return rej("required-missing");
        }
        if (it.kind == 'm')
        {
            if (!ev.empty())
            {
                size_t s = 0;
                for (;;)
                {
                    auto p = ev.find(';', s);
                    if (p == std::string::npos)
                    {
                        r.multi[it.name].push_back(ev.substr(s));
                        break;
                    }
                    r.multi[it.name].push_back(ev.substr(s, p - s));
                    s = p + 1;
                }
                r.provided.insert(it.name);
            }
            else if (it.has_def)
                r.multi[it.name] = it.mdef;
            else if (!it.optional)
                return rej("required-missing");
        }
        if (it.kind == 't')
        {
            if (!ev.empty())
            {
                if (truthy().count(ev))
                    r.tog[it.name] = 1;
                else if (falsy().count(ev))
                    r.tog[it.name] = 0;
                else
                    return rej("env-word");
                r.provided.insert(it.name);
            }
            else
                r.tog[it.name] = it.tdef;
        }
    }
    r.ok = true;
    return r;
}

// class of a token relative to a declaration (used for violation signatures and transition labels)
inline std::string token_class(const Decl& D, const std::string& t)
{
    if (is_value_token(t))
    {
        if (t.empty())
            return "EMPTY";
        bool plain = true;
        for (unsigned char c : t)
            if (!isalnum(c))
                plain = false;
        return plain ? "VAL" : (t.find('=') != std::string::npos ? "VAL=" : "VALx");
    }
    Tok k = lex(t);
    auto kind = [&](const Item* i) -> std::string {
        if (!i)
            return "unk";
        if (i->kind == 'o')
            return "opt";
        if (i->kind == 'm')
            return "multi";
        return i->rev ? "rtog" : "tog";
    };
    std::string v = k.hasv ? (k.val.empty() ? "=" : "=v") : "";
    switch (k.shape)
    {
    case Tok::SEP:
        return "SEP";
    case Tok::MALFORMED:
        return "MALF";
    case Tok::LONG:
    {
        const Item* i = D.by_name(k.body);
        if (i)
            return "L[" + kind(i) + "]" + v;
        if (k.body.rfind("no-", 0) == 0)
        {
            auto* c = D.by_name(k.body.substr(3));
            if (c)
                return "L[no-" + kind(c) + "]" + v;
        }
        return "L[unk]" + v;
    }
    case Tok::SHORT:
    {
        if (k.body.size() == 1)
            return "S[" + kind(D.by_short(k.body)) + "]" + v;
        // set of member kinds; a kind whose letter occurs more than once is marked with '*'
        std::map<std::string, int> ks;
        std::map<char, int> seen;
        for (char c : k.body)
        {
            auto kd = kind(D.by_short(std::string(1, c)));
            if (seen[c]++ && kd != "unk")
                ks[kd] = 2;
            else if (!ks.count(kd))
                ks[kd] = 1;
        }
        std::string s = "B[";
        bool first = true;
        for (auto& x : ks)
        {
            s += (first ? "" : "+") + x.first + (x.second > 1 ? "*" : "");
            first = false;
        }
        return s + "]" + v;
    }
    default:
        return "?";
    }
}
inline std::string class_seq(const Decl& D, const std::vector<std::string>& av)
{
    std::string s;
    for (auto& t : av)
        s += (s.empty() ? "" : " ") + token_class(D, t);
    return s;
}
inline std::string value_class(const std::string& v)
{
    if (v.empty())
        return "empty";
    std::string c;
    if (v[0] == '-')
        c += "dash";
    if (v.find('=') != std::string::npos)
        c += "eq";
    if (v.find(';') != std::string::npos)
        c += "semi";
    for (unsigned char ch : v)
        if (ch < 0x20 || ch >= 0x7f)
        {
            c += "ctl";
            break;
        }
    if (v.find(' ') != std::string::npos)
        c += "blank";
    return c.empty() ? "plain" : c;
}
inline std::string env_class(const Decl& D, const Env& env)
{
    std::string s;
    if (env.count("VERIF_AMBIENT_ERRNO"))
        s = "errno=" + env.at("VERIF_AMBIENT_ERRNO");
    for (auto& i : D.items)
    {
        if (i.env.empty())
            continue;
        auto e = env.find(i.env);
        s += std::string(s.empty() ? "" : ",") + i.kind + ":" +
             (e == env.end() ? "unset" : value_class(e->second));
    }
    return s;
}

// ---------------------------------------------------------------------------------------------
// implementation side

inline void build(nitro::options::parser& p, const Decl& D)
{
    for (auto& it : D.items)
    {
        if (it.kind == 'o')
        {
            auto& o = it.group.empty() ? p.option(it.name) : p.group(it.group).option(it.name);
            if (!it.sh.empty())
                o.short_name(it.sh);
            if (!it.env.empty())
                o.env(it.env);
            if (it.has_def)
                o.default_value(it.def);
            if (it.optional)
                o.optional();
        }
        if (it.kind == 'm')
        {
            auto& o = it.group.empty() ? p.multi_option(it.name) :
                                         p.group(it.group).multi_option(it.name);
            if (!it.sh.empty())
                o.short_name(it.sh);
            if (!it.env.empty())
                o.env(it.env);
            if (it.has_def)
                o.default_value(it.mdef);
            if (it.optional)
                o.optional();
        }
        if (it.kind == 't')
        {
            auto& o = it.group.empty() ? p.toggle(it.name) : p.group(it.group).toggle(it.name);
            if (!it.sh.empty())
                o.short_name(it.sh);
            if (!it.env.empty())
                o.env(it.env);
            if (it.tdef)
                o.default_value(it.tdef);
            if (it.rev)
                o.allow_reverse();
        }
    }
    p.accept_positionals(D.accepted);
    p.greedy_postionals(D.greedy);
}

// Ambient state of the calling thread that is not an input of the parser: the pseudo variable VERIF_AMBIENT_ERRNO in an
// Env makes the harness leave that value in errno right before the parse call (a caller may legitimately arrive with a
// stale ERANGE / EINVAL from its own earlier strtol, exp, ...).  It travels with the witness, so replay and minimisation
// need nothing extra; the reference ignores it.
static const char* const AMBIENT_ERRNO = "VERIF_AMBIENT_ERRNO";
inline void set_ambient_errno()
{
    const char* e = getenv(AMBIENT_ERRNO);
    errno = e ? atoi(e) : 0; // always defined: a witness without the pseudo variable means errno == 0
}
// A program may own its environment entries (putenv) and change a value IN PLACE: the entry keeps its address, only the
// bytes change.  The harness sets every bound variable that way (one fixed buffer per variable name, installed with
// putenv, rewritten for every case), so an implementation that remembers the address of an entry - or anything derived from
// it - instead of reading the value again is exposed by the second-parse phases.  Values too long for the buffer go
// through setenv.
inline void put_in_place(const std::string& name, const std::string& value)
{
    static std::map<std::string, char*> bufs;
    const size_t cap = 8192;
    if (name.size() + value.size() + 2 > cap)
    {
        setenv(name.c_str(), value.c_str(), 1);
        return;
    }
    char*& b = bufs[name];
    if (!b)
        b = static_cast<char*>(calloc(cap, 1));
    memcpy(b, name.c_str(), name.size());
    b[name.size()] = '=';
    memcpy(b + name.size() + 1, value.c_str(), value.size() + 1);
    if (getenv(name.c_str()) != b + name.size() + 1)
        putenv(b);
}
inline void apply_env(const Decl& D, const Env& env)
{
    {
        auto e = env.find(AMBIENT_ERRNO);
        if (e == env.end())
            unsetenv(AMBIENT_ERRNO);
        else
            setenv(AMBIENT_ERRNO, e->second.c_str(), 1);
    }
    for (auto& it : D.items)
    {
        if (it.env.empty())
            continue;
        auto e = env.find(it.env);
        if (e == env.end())
            unsetenv(it.env.c_str());
        else
            put_in_place(it.env, e->second);
    }
}

// snapshot of a successful parse through the public accessors
inline Res snapshot(const Decl& D, const nitro::options::arguments& args)
{
    Res r;
    r.ok = true;
    for (auto& it : D.items)
    {
        if (it.kind == 'o')
        {
            try
            {
                r.opt[it.name] = args.get(it.name);
            }
            catch (nitro::except::exception&)
            {
                r.opt[it.name] = std::nullopt;
            }
        }
        if (it.kind == 'm')
        {
            r.multi[it.name] = args.get_all(it.name);
            // get(name, i) and count(name) must tell the same story
            if (args.count(it.name) != r.multi[it.name].size())
                r.multi[it.name].push_back("<count() disagrees with get_all()>");
            else
                for (size_t i = 0; i < r.multi[it.name].size(); i++)
                    if (args.get(it.name, i) != r.multi[it.name][i])
                        r.multi[it.name][i] += "<get(name,i) disagrees>";
        }
        if (it.kind == 't')
            r.tog[it.name] = args.given(it.name);
        if (args.provided(it.name))
            r.provided.insert(it.name);
    }
    r.pos = args.positionals();
    return r;
}

// optional observer called with the live arguments object of a successful parse
using OnAccept = std::function<void(const nitro::options::arguments&, const Res&)>;

// run parse(argc, argv) on an existing parser object
inline Res run_on(nitro::options::parser& p, const Decl& D, const std::vector<std::string>& av,
                  const OnAccept& on_accept = nullptr)
{
    std::vector<const char*> a{ "prog" };
    for (auto& s : av)
        a.push_back(s.c_str());
    Res r;
    try
    {
        set_ambient_errno();
        auto args = p.parse(static_cast<int>(a.size()), a.data());
        auto snap = snapshot(D, args);
        if (on_accept)
            on_accept(args, snap);
        return snap;
    }
    catch (nitro::options::parsing_error&)
    {
        r.why = "parsing_error";
    }
    catch (nitro::options::parser_error& e)
    {
        r.why = std::string("parser_error: ") + e.what();
    }
    catch (std::exception& e)
    {
        r.why = std::string("std::exception: ") + e.what();
    }
    catch (...)
    {
        r.why = "foreign exception";
    }
    return r;
}

inline Res impl(const Decl& D, const std::vector<std::string>& av, const Env& env,
                const OnAccept& on_accept = nullptr)
{
    apply_env(D, env);
    nitro::options::parser p;
    build(p, D);
    return run_on(p, D, av, on_accept);
}

// the other entry point: parse(std::vector<user_input>), the inputs built from the strings by the checking constructor
inline Res run_on_vector(nitro::options::parser& p, const Decl& D, const std::vector<std::string>& av);
inline Res impl_vector_entry(const Decl& D, const std::vector<std::string>& av, const Env& env)
{
    apply_env(D, env);
    nitro::options::parser p;
    build(p, D);
    return run_on_vector(p, D, av);
}
inline Res run_on_vector(nitro::options::parser& p, const Decl& D, const std::vector<std::string>& av)
{
    Res r;
    try
    {
        std::vector<nitro::options::user_input> in;
        for (auto& s : av)
            in.emplace_back(s);
        set_ambient_errno();
        auto args = p.parse(in);
        return snapshot(D, args);
    }
    catch (nitro::options::parsing_error&)
    {
        r.why = "parsing_error";
    }
    catch (nitro::options::parser_error& e)
    {
        r.why = std::string("parser_error: ") + e.what();
    }
    catch (std::exception& e)
    {
        r.why = std::string("std::exception: ") + e.what();
    }
    catch (...)
    {
        r.why = "foreign exception";
    }
    return r;
}

// ---------------------------------------------------------------------------------------------
// comparison: list of failed clauses (empty = agreement)

struct Diff
{
    std::string clause;
    std::string detail;
};

inline std::vector<Diff> compare(const Res& r, const Res& i)
{
    std::vector<Diff> d;
    if (!i.ok && i.why != "parsing_error")
    {
        d.push_back({ "foreign-exception", "implementation threw " + i.why + "; reference: " + r.str() });
        return d;
    }
    if (i.ok && !r.ok)
    {
        d.push_back({ "accepted-but-must-reject(" + r.why + ")", "implementation: " + i.str() });
        return d;
    }
    if (!i.ok && r.ok)
    {
        d.push_back({ "rejected-but-must-accept", "reference: " + r.str() });
        return d;
    }
    if (!i.ok)
        return d;
    auto both = " reference: " + r.str() + " implementation: " + i.str();
    if (r.tog != i.tog)
        d.push_back({ "toggle-count", both });
    if (r.opt != i.opt)
        d.push_back({ "option-value", both });
    if (r.multi != i.multi)
        d.push_back({ "multi-option-list", both });
    if (r.pos != i.pos)
        d.push_back({ "positionals", both });
    if (r.provided != i.provided)
        d.push_back({ "provided-flags", both });
    return d;
}

// witness as JSON (enough to replay)
inline std::string item_json(const Item& i)
{
    mc::J j;
    j.s("kind", std::string(1, i.kind)).s("name", i.name);
    if (!i.sh.empty())
        j.s("short", i.sh);
    if (!i.env.empty())
        j.s("env", i.env);
    if (i.has_def)
        j.s("default", i.def);
    if (i.kind == 't')
        j.n("tdefault", i.tdef).b("reversible", i.rev);
    else
        j.b("optional", i.optional);
    if (!i.group.empty())
        j.s("group", i.group);
    return j.str();
}
inline std::string decl_json(const Decl& D)
{
    std::string items = "[";
    for (size_t k = 0; k < D.items.size(); k++)
        items += (k ? "," : "") + item_json(D.items[k]);
    items += "]";
    return mc::J()
        .raw("items", items)
        .n("accepted", D.accepted == UNLIMITED ? -1 : static_cast<long long>(D.accepted))
        .b("greedy", D.greedy)
        .str();
}
inline std::string env_json(const Env& env)
{
    mc::J j;
    for (auto& e : env)
        j.s(e.first, e.second);
    return j.str();
}
inline std::string witness_json(const Decl& D, const std::vector<std::string>& av, const Env& env)
{
    return mc::J()
        .s("decl", D.str())
        .raw("declaration", decl_json(D))
        .l("argv", av)
        .raw("env", env_json(env))
        .str();
}

// delta-minimise an argument vector: drop tokens while `still_fails` holds
template <typename F>
std::vector<std::string> minimise(std::vector<std::string> av, F&& still_fails)
{
    bool changed = true;
    while (changed)
    {
        changed = false;
        for (size_t i = 0; i < av.size(); i++)
        {
            auto cand = av;
            cand.erase(cand.begin() + i);
            if (still_fails(cand))
            {
                av = cand;
                changed = true;
                break;
            }
        }
    }
    return av;
}

// ---------------------------------------------------------------------------------------------
// replay support: rebuild a case from its witness

inline Decl decl_from(const js::Value& d)
{
    Decl D;
    for (auto& v : d.at("items").arr)
    {
        Item i;
        i.kind = v.s("kind")[0];
        i.name = v.s("name");
        i.sh = v.s("short");
        i.env = v.s("env");
        i.has_def = v.has("default");
        i.def = v.s("default");
        i.mdef = { i.def };
        i.tdef = static_cast<int>(v.n("tdefault"));
        i.rev = v.flag("reversible");
        i.optional = v.flag("optional");
        i.group = v.s("group");
        D.items.push_back(i);
    }
    long long acc = d.n("accepted");
    D.accepted = acc < 0 ? UNLIMITED : static_cast<size_t>(acc);
    D.greedy = d.flag("greedy");
    return D;
}
inline Env env_from(const js::Value& w)
{
    Env e;
    if (auto v = w.find("env"))
        for (auto& kv : v->obj)
            e[kv.first] = kv.second.str;
    return e;
}

// generic replay of a single (declaration, argv, env) case: prints reference and implementation and
// the clauses `failing` reports; exit status 1 if any clause fails
template <typename F>
int replay_case(const std::string& path, const char* id, F&& failing)
{
    auto doc = js::load(path);
    const js::Value& w = doc.has("witness") ? doc.at("witness") : doc;
    Decl D = decl_from(w.at("declaration"));
    auto av = w.strings("argv");
    Env env = env_from(w);
    auto r = refparse(D, av, env);
    auto i = impl(D, av, env);
    printf("replay %s\n  declaration: %s\n  argv: %s\n  env: %s\n  reference     : %s\n  implementation: %s%s\n",
           id, D.str().c_str(), mc::jlist(av).c_str(), env_json(env).c_str(), r.str().c_str(),
           i.ok ? i.str().c_str() : "threw ", i.ok ? "" : i.why.c_str());
    auto clauses = failing(D, av, env);
    for (auto& c : clauses)
        printf("  FAILED clause: %s\n    %s\n", c.clause.c_str(), c.detail.c_str());
    if (clauses.empty())
        printf("  no clause of %s fails on this case\n", id);
    return clauses.empty() ? 0 : 1;
}

} // namespace ref
